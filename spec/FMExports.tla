----------------------------- MODULE FMExports -----------------------------
(***************************************************************************)
(* The three export languages as PROGRAMS whose meaning is decided here    *)
(* (C10, C11): abstract syntax produced by the harness's strict parsers,   *)
(* denotation = the set of feature selections the document admits.         *)
(*                                                                         *)
(* SXFM:   :r root always selected;  :m x under p:  x in S <=> p in S;     *)
(*         :o x under p: x in S => p in S;  :g [a,b] under p with members  *)
(*         X:  p in S => a <= |X cap S| <= b  (star = |X|), p notin S =>   *)
(*         X cap S = {};  each clause: at least one literal true.          *)
(* .exp:   one formula per line over not/and/or/->/<-> (binding strength   *)
(*         in that order, left associative): every line satisfied.         *)
(* Clafer: children of a clafer with a group cardinality are 0..1 and      *)
(*         bounded by the group; children of one without are 1..1, or 0..1 *)
(*         with `?`; a child only if its parent; top-level [..] lines are  *)
(*         constraints.                                                    *)
(***************************************************************************)
EXTENDS FMSem

SplotIds(d)  == SetOf(d.ids)
SplotOK(d, S) ==
  /\ d.root \in S
  /\ \A i \in DOMAIN d.edges :
        LET e == d.edges[i]
        IN  IF e.kind = "m" THEN (e.child \in S) <=> (e.parent \in S) ELSE (e.child \in S) => (e.parent \in S)
  /\ \A i \in DOMAIN d.groups :
        LET g == d.groups[i]
            X == SetOf(g.members)
            c == Cardinality(X \cap S)
            hi == IF g.hi = Star THEN Cardinality(X) ELSE g.hi
        IN  IF g.parent \in S THEN g.lo <= c /\ c <= hi ELSE c = 0
  /\ \A i \in DOMAIN d.clauses :
        \E k \in DOMAIN d.clauses[i] : (d.clauses[i][k].id \in S) # d.clauses[i][k].neg
SplotConfigs(d) == {S \in SUBSET SplotIds(d) : SplotOK(d, S)}

PLVars(d)    == UNION {VarsOf(d.formulas[i]) : i \in DOMAIN d.formulas}
PLConfigs(d) == {S \in SUBSET PLVars(d) : \A i \in DOMAIN d.formulas : EvalN(d.formulas[i], S)}

ClaferNames(d) == {d.nodes[i].name : i \in DOMAIN d.nodes}
ClaferKids(d, p) == {i \in DOMAIN d.nodes : d.nodes[i].parent = p}
ClaferBounds(n, k) ==      \* group cardinality of clafer n having k children
  CASE n.group = "xor" -> <<1, 1>> [] n.group = "or" -> <<1, k>> [] n.group = "mux" -> <<0, 1>>
    [] n.group = "opt" -> <<0, k>> [] n.group = "card" -> <<n.glo, IF n.ghi = Star THEN k ELSE n.ghi>>
    [] OTHER -> <<0, k>>
ClaferOK(d, S) ==
  /\ d.inst \in S
  /\ \A i \in DOMAIN d.nodes :
        LET n == d.nodes[i]
            K == ClaferKids(d, n.name)
            sel == Cardinality({j \in K : d.nodes[j].name \in S})
            b == ClaferBounds(n, Cardinality(K))
        IN  /\ (n.parent # "" /\ n.name \in S) => n.parent \in S
            /\ n.name \in S =>
                 IF n.group = ""
                 THEN \A j \in K : d.nodes[j].opt \/ d.nodes[j].name \in S
                 ELSE b[1] <= sel /\ sel <= b[2]
  /\ \A i \in DOMAIN d.ctcs : EvalN(d.ctcs[i], S)
ClaferConfigs(d) == {S \in SUBSET ClaferNames(d) : ClaferOK(d, S)}

\* the fragment the Clafer notation expresses (C11)
InClaferFrag(m) ==
  /\ WellFormedTree(m) /\ WfCards(m)
  /\ \A i \in DOMAIN m.ctcs : IsPropT(m.ctcs[i].ast)
  /\ \A f \in Names(m) :
        LET rs == RelsOf(m, f)
        IN  \/ \A i \in DOMAIN rs : KindOf(rs[i]) \in {"mandatory", "optional"}
            \/ Len(rs) = 1 /\ IsGroupRel(rs[1])
\* Boolean models with logical constraints (C10)
InExportFrag(m) ==
  /\ WellFormedTree(m) /\ WfCards(m)
  /\ \A i \in DOMAIN m.feats : m.feats[i].ftype = "Boolean"
  /\ \A i \in DOMAIN m.ctcs : IsPropT(m.ctcs[i].ast)

\* NAMED DEVIATION dep-simplify (see FMAst): the model whose constraints are what the
\* dependency's simplify_formula makes of them
DepModel(m) == [m EXCEPT !.ctcs = [i \in DOMAIN m.ctcs |-> [m.ctcs[i] EXCEPT !.ast = DepSimplify(@)]]]
ModelHasDepOps(m) == \E i \in DOMAIN m.ctcs : HasDepOps(m.ctcs[i].ast)
ModelHasRawRight(m) == \E i \in DOMAIN m.ctcs : HasRawRight(m.ctcs[i].ast)
=============================================================================
