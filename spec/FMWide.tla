------------------------------ MODULE FMWide ------------------------------
(***************************************************************************)
(* Generator of WIDE models (family `WideLeaves`, C13): the root owns one  *)
(* or two relations over leaf children only, with so many children that    *)
(* the number of configurations exceeds 2^31 - where floating-point or     *)
(* fixed-width arithmetic in an implementation goes wrong and TLC's own    *)
(* integers cannot follow.  The exact count is FMBig!WideCount.            *)
(***************************************************************************)
EXTENDS FMBig, Json

CONSTANTS Ns,        \* numbers of children of the first relation
          Cards,     \* subset of {"or","alt","mutex","2to5","all","any","star2","half"}
          Seconds    \* subset of {"none","opt","or20","alt33","mutex64"}

ASSUME LBig          \* the oracle's arithmetic is checked once, when the run starts

VARIABLE groups

CardOf(n, c) == CASE c = "or"    -> [n |-> n, lo |-> 1, hi |-> n]
                  [] c = "alt"   -> [n |-> n, lo |-> 1, hi |-> 1]
                  [] c = "mutex" -> [n |-> n, lo |-> 0, hi |-> 1]
                  [] c = "2to5"  -> [n |-> n, lo |-> 2, hi |-> 5]
                  [] c = "all"   -> [n |-> n, lo |-> n, hi |-> n]
                  [] c = "any"   -> [n |-> n, lo |-> 0, hi |-> n]
                  [] c = "star2" -> [n |-> n, lo |-> 2, hi |-> -1]
                  [] c = "half"  -> [n |-> n, lo |-> n \div 2, hi |-> n \div 2 + 1]
SecondOf(s) == CASE s = "none"    -> <<>>
                 [] s = "opt"     -> << [n |-> 1, lo |-> 0, hi |-> 1] >>
                 [] s = "or20"    -> << [n |-> 20, lo |-> 1, hi |-> 20] >>
                 [] s = "alt33"   -> << [n |-> 33, lo |-> 1, hi |-> 1] >>
                 [] s = "mutex64" -> << [n |-> 64, lo |-> 0, hi |-> 1] >>

Init == groups \in {<<CardOf(n, c)>> \o SecondOf(s) : n \in Ns, c \in Cards, s \in Seconds}
Next == UNCHANGED groups
Spec == Init /\ [][Next]_groups
LevelBound == TRUE
Emit == PrintT(ToJson([groups |-> groups]))
TypeOK == Len(groups) \in 1..2
=============================================================================
