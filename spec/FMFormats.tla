----------------------------- MODULE FMFormats -----------------------------
(***************************************************************************)
(* The serialisation formats as the properties state them (C01, C05-C08):  *)
(*   InFrag(fmt, m)        what the format can express                     *)
(*   PreserveClauses(...)  what one write/read cycle must keep             *)
(* and the cycle rule: the second read-back equals the first exactly, a    *)
(* writer's output is a function of the model alone - from which every     *)
(* later cycle follows by induction (DESIGN 1, 8).                         *)
(***************************************************************************)
EXTENDS FMSem

Formats == {"uvl", "json", "afm", "fide", "glencoe"}

RelsKinds(m, f) == {KindOf(RelsOf(m, f)[i]) : i \in DOMAIN RelsOf(m, f)}
AllBoolean(m)   == \A i \in DOMAIN m.feats : m.feats[i].ftype = "Boolean"
NoFCard(m)      == \A i \in DOMAIN m.feats : m.feats[i].fclo = 1 /\ m.feats[i].fchi = 1
NoStar(m)       == \A j \in DOMAIN m.rels : m.rels[j].hi # Star
NoAbstract(m)   == \A i \in DOMAIN m.feats : ~m.feats[i].abs
NoAttrs(m)      == \A i \in DOMAIN m.feats : m.feats[i].attrs = <<>>
LogicalCtcs(m, ops) == \A i \in DOMAIN m.ctcs : IsPropT(m.ctcs[i].ast) /\ OpsOf(m.ctcs[i].ast) \subseteq ops
DistinctCtcNames(m) == NoDup([i \in DOMAIN m.ctcs |-> m.ctcs[i].name])
SolitaryOnly(m, f)  == RelsKinds(m, f) \subseteq {"mandatory", "optional"}
NoSingleCard(m)     == \A j \in DOMAIN m.rels : NKids(m.rels[j]) = 1 => KindOf(m.rels[j]) \in {"mandatory", "optional"}
\* attributes carry only a name and a value (no domain, no null value)
PlainAttrs(m) == \A i \in DOMAIN m.feats : \A k \in DOMAIN m.feats[i].attrs :
                    m.feats[i].attrs[k].dom = "" /\ m.feats[i].attrs[k].nul = "n"
UniqueAttrNames(m) == \A i \in DOMAIN m.feats : NoDup([k \in DOMAIN m.feats[i].attrs |-> m.feats[i].attrs[k].name])

UvlOps  == {"NOT", "AND", "OR", "IMPLIES", "EQUIVALENCE", "REQUIRES", "EXCLUDES"} \cup ArithOps \cup {"SUM", "AVG"}
AfmOps  == {"NOT", "AND", "OR", "IMPLIES", "EQUIVALENCE", "REQUIRES", "EXCLUDES"}
FideOps == AfmOps
JsonOps == LogicOps
GlenOps == LogicOps

InFrag(fmt, m) ==
  /\ WellFormedTree(m) /\ WfCards(m)
  /\ CASE fmt = "uvl" ->
            /\ PlainAttrs(m) /\ UniqueAttrNames(m)
            /\ \A i \in DOMAIN m.ctcs : WellShaped(m.ctcs[i].ast) /\ OpsOf(m.ctcs[i].ast) \subseteq UvlOps
       [] fmt = "json" ->
            /\ AllBoolean(m) /\ NoFCard(m) /\ PlainAttrs(m) /\ LogicalCtcs(m, JsonOps)
       [] fmt = "afm" ->
            /\ AllBoolean(m) /\ NoFCard(m) /\ NoStar(m) /\ NoAbstract(m) /\ NoSingleCard(m)
            /\ LogicalCtcs(m, AfmOps)
            /\ \A i \in DOMAIN m.feats : \A k \in DOMAIN m.feats[i].attrs :    \* every AFM attribute has a domain
                  m.feats[i].attrs[k].dom # "" /\ m.feats[i].attrs[k].val # "n" /\ m.feats[i].attrs[k].nul # "n"
       [] fmt = "fide" ->
            /\ AllBoolean(m) /\ NoFCard(m) /\ NoStar(m) /\ NoAttrs(m) /\ LogicalCtcs(m, FideOps)
            /\ \A f \in Names(m) :
                  \/ SolitaryOnly(m, f)
                  \/ (Len(RelsOf(m, f)) = 1 /\ RelsKinds(m, f) \subseteq {"or", "alternative"})
       [] fmt = "glencoe" ->
            /\ AllBoolean(m) /\ NoFCard(m) /\ NoStar(m) /\ NoAttrs(m) /\ NoAbstract(m) /\ NoSingleCard(m)
            /\ LogicalCtcs(m, GlenOps) /\ DistinctCtcNames(m)
            /\ \A f \in Names(m) :
                  \/ SolitaryOnly(m, f)
                  \/ /\ Cardinality({i \in DOMAIN RelsOf(m, f) : IsGroupRel(RelsOf(m, f)[i])}) = 1
                     /\ \A i \in DOMAIN RelsOf(m, f) :
                           IsGroupRel(RelsOf(m, f)[i]) \/ KindOf(RelsOf(m, f)[i]) = "mandatory"
       [] OTHER -> FALSE

---------------------------------------------------------------------------
(* What a round trip keeps *)
GroupBag(m, f) == [i \in DOMAIN RelsOf(m, f) |-> <<Kids(RelsOf(m, f)[i]), RelsOf(m, f)[i].lo, RelsOf(m, f)[i].hi>>]
AttrMap(ft, full) == [k \in DOMAIN ft.attrs |->
                        IF full THEN <<ft.attrs[k].name, ft.attrs[k].val, ft.attrs[k].dom, ft.attrs[k].nul>>
                        ELSE <<ft.attrs[k].name, ft.attrs[k].val>>]
Common(a, b) == Names(a) \cap Names(b)

PreserveClauses(p, fmt, a, b) ==
  LET same == Names(a) = Names(b) /\ WfUnique(b)
  IN
  << <<p \o ".preserve.names",  a.root = b.root /\ Names(a) = Names(b) /\ Len(a.feats) = Len(b.feats)>>,
     <<p \o ".preserve.parent", same => \A f \in Names(a) : TreeParent(a, f) = TreeParent(b, f)>>,
     <<p \o ".preserve.groups", same => \A f \in Names(a) : SameBag(GroupBag(a, f), GroupBag(b, f))>>,
     <<p \o ".preserve.abstract", same /\ fmt # "glencoe" /\ fmt # "afm" =>
                                     \A f \in Names(a) : FeatOf(a, f).abs = FeatOf(b, f).abs>>,
     <<p \o ".preserve.type",   same => \A f \in Names(a) : FeatOf(a, f).ftype = FeatOf(b, f).ftype>>,
     <<p \o ".preserve.fcard",  same => \A f \in Names(a) : FeatOf(a, f).fclo = FeatOf(b, f).fclo
                                                            /\ FeatOf(a, f).fchi = FeatOf(b, f).fchi>>,
     <<p \o ".preserve.attrs",  same /\ fmt \in {"uvl", "json", "afm"} =>
                                   \A f \in Names(a) : SameBag(AttrMap(FeatOf(a, f), fmt = "afm"),
                                                               AttrMap(FeatOf(b, f), fmt = "afm"))>>,
     <<p \o ".preserve.nctcs",  Len(a.ctcs) = Len(b.ctcs)>>,
     <<p \o ".preserve.ctcshape", \A i \in DOMAIN b.ctcs : WellShaped(b.ctcs[i].ast)>>,
     <<p \o ".preserve.ctcs",   Len(a.ctcs) = Len(b.ctcs) /\ (\A i \in DOMAIN b.ctcs : WellShaped(b.ctcs[i].ast)) =>
                                   \A i \in DOMAIN a.ctcs : Equiv(a.ctcs[i].ast, b.ctcs[i].ast)>>,
     \* C05 says "the same named constraints" where the other formats say "logically equivalent": JSON stores the tree itself
     <<p \o ".preserve.ctcs.same", fmt = "json" /\ Len(a.ctcs) = Len(b.ctcs) =>
                                   \A i \in DOMAIN a.ctcs : a.ctcs[i].ast = b.ctcs[i].ast>>,
     <<p \o ".preserve.ctcnames", fmt \in {"json", "glencoe", "xml"} /\ Len(a.ctcs) = Len(b.ctcs) =>
                                   \A i \in DOMAIN a.ctcs : a.ctcs[i].name = b.ctcs[i].name>> >>

PropOfFmt(fmt) == CASE fmt = "uvl" -> "C01" [] fmt = "json" -> "C05" [] fmt = "afm" -> "C06"
                    [] fmt = "fide" -> "C07" [] fmt = "glencoe" -> "C08" [] OTHER -> "C12"
=============================================================================
