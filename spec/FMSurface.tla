----------------------------- MODULE FMSurface -----------------------------
(***************************************************************************)
(* Generator of SURFACE-CHOICE vectors (family `Surface`, C04/C09): which  *)
(* reference model of a pool is rendered by the independent reference      *)
(* emitter under which combination of the format's syntactic freedoms, and *)
(* which documents are made invalid by construction.  All combinations are *)
(* enumerated; broken documents use the default choices.                   *)
(***************************************************************************)
EXTENDS Naturals, Sequences, FiniteSets, TLC, Json

CONSTANTS DimNames,   \* set of choice names
          DimVals,    \* [DimNames -> set of strings]
          Defaults,   \* [DimNames -> string]
          Brokens,    \* set of strings, contains "none"
          Pool        \* number of reference models

VARIABLES ch, model, broken
svars == <<ch, model, broken>>

AllVals == UNION {DimVals[d] : d \in DimNames}
Init == /\ model \in 1..Pool
        /\ broken \in Brokens
        /\ ch \in {f \in [DimNames -> AllVals] : \A d \in DimNames : f[d] \in DimVals[d]}
        /\ (broken # "none" => ch = Defaults)
Next == UNCHANGED svars
Spec == Init /\ [][Next]_svars
LevelBound == TRUE
Emit == PrintT(ToJson([ch |-> ch, model |-> model, broken |-> broken]))
TypeOK == \A d \in DimNames : ch[d] \in DimVals[d]
=============================================================================
