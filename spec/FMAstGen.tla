------------------------------ MODULE FMAstGen ------------------------------
(***************************************************************************)
(* Generator of constraint expression trees (family `Ast`): every tree of  *)
(* depth <= Depth over Names with the given binary operators plus NOT,     *)
(* a fixed set of comparison / arithmetic / aggregate shapes, and - under  *)
(* -simulate - random deeper trees grown by the Grow action.               *)
(* The documented simple forms are checked against their meaning (L8).     *)
(***************************************************************************)
EXTENDS FMAst, Json

CONSTANTS ANames, BinOps, Depth, GrowSteps, WithArith
CONSTANTS NegLits      \* K >= 0: the initial trees are NegLitTrees(ANames, BinOps, K) instead (-1 written as 0 with Depth >= 1: see Init)

CONSTANTS Walks, Seed     \* 0: exhaustive set of initial trees; n > 0: n seeded random walks growing deeper trees

VARIABLES t, walk

I(n) == Lit("INT", n)
ArithShapes ==
  LET a == Var("f1")  b == Var("f2")  c == Var("f3")
  IN {
    Bin("GREATER", a, I("5")),
    Bin("EQUALS", Bin("ADD", a, b), I("3")),
    Bin("LOWER", Bin("MUL", a, I("2")), Bin("SUB", b, c)),
    Bin("NOT_EQUALS", Bin("DIV", a, b), Lit("NUM", "1.5")),
    Bin("AND", a, Bin("LOWER_EQUALS", b, c)),
    Bin("IMPLIES", a, Bin("GREATER_EQUALS", Bin("ADD", b, I("1")), c)),
    Un("NOT", Bin("EQUALS", a, Lit("STR", "'x'"))),
    Bin("GREATER", Bin("SUM", Var("a1"), a), I("10")),
    Bin("LOWER", Un("AVG", Var("a1")), I("7")),
    Bin("EQUALS", Un("LEN", a), I("2")),
    Bin("OR", Bin("EQUALS", Un("FLOOR", a), I("1")), b),
    Bin("EQUALS", Un("CEIL", a), Bin("ADD", Un("LEN", b), I("1"))),
    Bin("EQUIVALENCE", Bin("LOWER", a, b), Bin("GREATER", b, a))
  }

Small == TreesOver(ANames, BinOps, 1)

\* deterministic pseudo-random choice (see FM.tla): hash of (Seed, walk, level, salt)
HM == 46337
Mix(x, y) == ((x % HM) * 263 + (y % HM) * 71 + 12345) % HM
Hash(salt) == Mix(Mix(Mix(Mix(Seed, walk), TLCGet("level")), salt), SizeT(t))
PickS(S, salt) == LET q == SetToSeq(S) IN q[(Hash(salt) % Len(q)) + 1]

Init == IF Walks = 0
        THEN walk = 0 /\ t \in (IF NegLits > 0 THEN NegLitTrees(ANames, BinOps, NegLits) ELSE TreesOver(ANames, BinOps, Depth))
                                \cup (IF WithArith THEN ArithShapes ELSE {})
        ELSE walk \in 1..Walks /\ t = SetToSeq(Small)[(Mix(Mix(Seed, walk), 7) % Cardinality(Small)) + 1]

\* one seeded random step per state: a walk is a single behaviour of growing trees
Grow == /\ Walks > 0 /\ TLCGet("level") <= GrowSteps
        /\ \E s \in {PickS(Small, 1)}, o \in {PickS(BinOps, 2)}, k \in {PickS(1..5, 3)} :
              t' = IF k <= 2 THEN Bin(o, t, s) ELSE IF k <= 4 THEN Bin(o, s, t) ELSE Un("NOT", t)
        /\ UNCHANGED walk
Next == Grow
Spec == Init /\ [][Next]_<<t, walk>>

LevelBound == TRUE
Emit == PrintT(ToJson([ast |-> t]))
TypeOK == walk \in 0..Walks

\* L8: each documented simple form has its requires / excludes reading
L8_Forms ==
  /\ ReqForm(t) => \E a, b \in ANames : Equiv(t, ReqMeaning(a, b))
  /\ ExcForm(t) => \E a, b \in ANames : Equiv(t, ExcMeaning(a, b))
\* well-shapedness of everything generated; Equiv is reflexive
L_Shape == WellShaped(t) /\ Equiv(t, t)
=============================================================================
