------------------------------ MODULE FMAstGen ------------------------------
(***************************************************************************)
(* Generator of constraint expression trees (family `Ast`): every tree of  *)
(* depth <= Depth over Names with the given binary operators plus NOT,     *)
(* a fixed set of comparison / arithmetic / aggregate shapes, and - under  *)
(* -simulate - random deeper trees grown by the Grow action.               *)
(* The documented simple forms are checked against their meaning (L8).     *)
(***************************************************************************)
EXTENDS FMAst, Json

CONSTANTS ANames, BinOps, Depth, GrowSteps, WithArith

VARIABLE t

I(n) == Lit("INT", n)
ArithShapes ==
  LET a == Var("f1")  b == Var("f2")  c == Var("f3")
  IN {
    Bin("GREATER", a, I("5")),
    Bin("EQUALS", Bin("ADD", a, b), I("3")),
    Bin("LOWER", Bin("MUL", a, I("2")), Bin("SUB", b, c)),
    Bin("NOT_EQUALS", Bin("DIV", a, b), Lit("NUM", "1.5")),
    Bin("AND", a, Bin("LOWER_EQUALS", b, c)),
    Bin("IMPLIES", a, Bin("GREATER_EQUALS", Bin("ADD", b, I("1")), c)),
    Un("NOT", Bin("EQUALS", a, Lit("STR", "'x'"))),
    Bin("GREATER", Bin("SUM", Var("a1"), a), I("10")),
    Bin("LOWER", Un("AVG", Var("a1")), I("7")),
    Bin("EQUALS", Un("LEN", a), I("2")),
    Bin("OR", Bin("EQUALS", Un("FLOOR", a), I("1")), b),
    Bin("EQUALS", Un("CEIL", a), Bin("ADD", Un("LEN", b), I("1"))),
    Bin("EQUIVALENCE", Bin("LOWER", a, b), Bin("GREATER", b, a))
  }

Init == t \in TreesOver(ANames, BinOps, Depth) \cup (IF WithArith THEN ArithShapes ELSE {})

Small == TreesOver(ANames, BinOps, 1)
\* one random successor per step (RandomElement), so that -simulate does not
\* enumerate - and print - every sibling
Grow == /\ TLCGet("level") <= GrowSteps
        /\ LET s == RandomElement(Small)
               o == RandomElement(BinOps)
               k == RandomElement(1..5)
           IN  t' = IF k <= 2 THEN Bin(o, t, s) ELSE IF k <= 4 THEN Bin(o, s, t) ELSE Un("NOT", t)
Next == Grow
Spec == Init /\ [][Next]_t

LevelBound == TRUE
Emit == PrintT(ToJson([ast |-> t]))

\* L8: each documented simple form has its requires / excludes reading
L8_Forms ==
  /\ ReqForm(t) => \E a, b \in ANames : Equiv(t, ReqMeaning(a, b))
  /\ ExcForm(t) => \E a, b \in ANames : Equiv(t, ExcMeaning(a, b))
\* well-shapedness of everything generated; Equiv is reflexive
L_Shape == WellShaped(t) /\ Equiv(t, t)
=============================================================================
