--------------------------------- MODULE FM ---------------------------------
(***************************************************************************)
(* The state machine of the library's public construction API.             *)
(* Every reachable state is a feature model together with the call         *)
(* sequence (hist) that builds it through the public constructors; TLC's   *)
(* reachable-state enumeration is the input generator of every check       *)
(* (DESIGN 5).  Builder actions are canonical: features are named in       *)
(* creation order, relations are attached at or after the last owner used, *)
(* decorations are applied in increasing feature order, stage by stage -   *)
(* so each model is reached by exactly one behaviour.                      *)
(***************************************************************************)
EXTENDS FMFormats, Json

CONSTANTS
  N,          \* max number of features
  MaxKids,    \* max children per relation
  MinHi,      \* 0: every 0<=lo<=hi<=k ; 1: hi >= 1
  AllowStar,  \* BOOLEAN: also [lo..*] relations (UVL only)
  OverHi,     \* BOOLEAN: also upper bounds above the number of children (reference documents of third-party formats only)
  Axes,       \* subset of {"abs","type","fcard","attr","ctc"}: enabled decoration stages
  Types,      \* feature types offered by SetType
  FCards,     \* feature cardinalities offered by SetFCard, as <<lo,hi>>
  AttrNames,  \* sequence of attribute names
  AttrVals,   \* set of [val, dom, nul] token records offered by AddAttribute
  MaxCtc, CtcDepth, CtcBinOps,
  CtcMinFeatures,
  CtcSameName,  \* BOOLEAN: every constraint is called "c1" (readers that name constraints after their text do this)
  CtcGrow,    \* walks only: how many times the last constraint may be grown one level deeper
  CtcEqShape, \* BOOLEAN: also every (p => q) and (r => s) over literals
  CtcChains,  \* set of <<op, n>>: also the left-nested chain of n literals under op
  CtcArith,   \* BOOLEAN: also comparison / arithmetic / aggregate constraints
  Fmt,        \* "" or a format: emit only models inside that format's fragment
  Fmt2,       \* "" or a second format: ... and inside this one's too (cross-format chains)
  MaxLevel,   \* bound on behaviour length (safety net)
  Shape,      \* "" or "chain": restricts the trees that are built (checked on the successor state)
  MaxEdits,   \* in-place edits of the built model (0: none); every state after an edit is a case too
  EditKinds,  \* subset of {"card","addchild","rmkid","replkid","move","reown","import","abs","attrval","attrname","rmattr","rmctc","ctcop","rename"}
  Walks,      \* 0: exhaustive exploration; n > 0: n seeded random walks ("random larger ones")
  Seed        \* seed of the walks (VERIF_SEED)

VARIABLES model, hist, stage, pos, walk,
          base    \* the model as it was when the first in-place edit was made (edit histories), else the empty model
vars == <<model, hist, stage, pos, walk, base>>

FName(i) == "f" \o ToString(i)
NF       == Len(model.feats)
NoModel  == [root |-> "", feats |-> <<>>, rels |-> <<>>, ctcs |-> <<>>]

Init == /\ model = NewModelF(FName(1))
        /\ hist  = <<[a |-> "NewModel", root |-> FName(1)]>>
        /\ stage = 0 /\ pos = 1
        /\ walk \in (IF Walks = 0 THEN {0} ELSE 1..Walks)
        /\ base = NoModel

CardChoices(k) ==
  {<<lo, hi>> \in (0..k) \X (MinHi..k) : lo <= hi}
  \cup (IF AllowStar THEN {<<lo, Star>> : lo \in 0..k} ELSE {})
  \cup (IF OverHi THEN {<<lo, k + 2>> : lo \in 0..1} ELSE {})

AddRelation(o, k, lo, hi) ==
  /\ stage = 0 /\ o >= pos /\ o <= NF /\ NF + k <= N
  /\ LET kids == [i \in 1..k |-> FName(NF + i)]
         on   == model.feats[o].name
     IN  /\ model' = AddRelationF(model, on, kids, lo, hi)
         /\ hist'  = Append(hist, [a |-> "AddRelation", o |-> on, kids |-> kids, lo |-> lo, hi |-> hi])
  /\ stage' = 0 /\ pos' = o

\* a decoration of stage s on item code c: stages and codes only increase
Enter(s, c) == /\ (stage < s \/ (stage = s /\ c > pos))
               /\ stage' = s /\ pos' = c

SetAbstract(i) ==
  /\ "abs" \in Axes /\ i \in 1..NF /\ Enter(1, i)
  /\ model' = SetAbstractF(model, model.feats[i].name)
  /\ hist'  = Append(hist, [a |-> "SetAbstract", f |-> model.feats[i].name])
SetType(i, t) ==
  /\ "type" \in Axes /\ i \in 1..NF /\ Enter(2, i)
  /\ model' = SetTypeF(model, model.feats[i].name, t)
  /\ hist'  = Append(hist, [a |-> "SetType", f |-> model.feats[i].name, t |-> t])
SetFCard(i, c) ==
  /\ "fcard" \in Axes /\ i \in 1..NF /\ Enter(3, i)
  /\ model' = SetFCardF(model, model.feats[i].name, c[1], c[2])
  /\ hist'  = Append(hist, [a |-> "SetFCard", f |-> model.feats[i].name, lo |-> c[1], hi |-> c[2]])
AddAttribute(i, k, v) ==
  /\ "attr" \in Axes /\ i \in 1..NF /\ k \in DOMAIN AttrNames /\ Enter(4, i * 10 + k)
  /\ model' = AddAttributeF(model, model.feats[i].name, AttrNames[k], v.val, v.dom, v.nul)
  /\ hist'  = Append(hist, [a |-> "AddAttribute", f |-> model.feats[i].name, n |-> AttrNames[k],
                            val |-> v.val, dom |-> v.dom, nul |-> v.nul])
AddConstraint(t) ==
  /\ "ctc" \in Axes /\ Len(model.ctcs) < MaxCtc
  /\ stage <= 5 /\ stage' = 5 /\ pos' = 0
  /\ LET n == IF CtcSameName THEN "c1" ELSE "c" \o ToString(Len(model.ctcs) + 1)
     IN  /\ model' = AddConstraintF(model, n, t)
         /\ hist'  = Append(hist, [a |-> "AddConstraint", n |-> n, ast |-> t])

\* constraints are added only to models with at least CtcMinFeatures features
CtcReady == Len(model.feats) >= CtcMinFeatures

\* Constraint.ast = ... (the public setter): the last constraint becomes a deeper tree
ReplaceConstraint(t) ==
  /\ "ctc" \in Axes /\ model.ctcs # <<>> /\ stage = 5
  /\ LET k == Len(model.ctcs)
     IN  /\ model' = [model EXCEPT !.ctcs[k].ast = t]
         /\ hist'  = Append(hist, [a |-> "ReplaceConstraint", n |-> model.ctcs[k].name, ast |-> t])
  /\ stage' = 5 /\ pos' = pos + 1

---------------------------------------------------------------------------
(* In-place edits (stage 6): the model that was built - and possibly        *)
(* observed, analysed, serialised, hashed - is changed through public       *)
(* attributes, and observed again.  Every state after an edit is a case;    *)
(* hist then holds the build calls followed by the edit calls.              *)
NFresh    == Cardinality({i \in DOMAIN hist : hist[i].a \in {"EditAddChild", "EditRename"}})
FreshName == FName(N + 1 + NFresh)
CtcVars   == UNION {VarsOf(model.ctcs[i].ast) : i \in DOMAIN model.ctcs}
EditPhase == MaxEdits > 0 /\ NF >= 2 /\ (stage < 6 \/ pos < MaxEdits)
EnterEdit == stage' = 6 /\ pos' = (IF stage = 6 THEN pos + 1 ELSE 1)
Ref(j)    == [o |-> model.rels[j].owner, ri |-> RelPos(model, j)]

RECURSIVE SubtreeOf(_)
SubtreeOf(f) == {f} \cup UNION {SubtreeOf(c) : c \in ChildSet(model, f)}
\* what import_model is offered: two constraints, the first possibly one the model already has, the second possibly the first again
ImportFirst  == {model.ctcs[i].ast : i \in DOMAIN model.ctcs} \cup {Var(model.root)}
ImportCands  == {<<t1, t2>> \in ImportFirst \X ({Var(n) : n \in Names(model)} \cup ImportFirst) : TRUE}
ImportSeq    == SetToSeq(ImportCands)

EditChoices ==
  (IF "move" \in EditKinds
   THEN UNION {{[k |-> "move", j |-> j, i |-> i, x |-> "", lo |-> j2, hi |-> 0] :
                   i \in {i \in DOMAIN model.rels[j].kids :
                            /\ NKids(model.rels[j]) >= 2
                            /\ model.rels[j].lo <= NKids(model.rels[j]) - 1
                            /\ (model.rels[j].hi = Star \/ model.rels[j].hi <= NKids(model.rels[j]) - 1)},
                   j2 \in {j2 \in DOMAIN model.rels : j2 # j}} : j \in DOMAIN model.rels}
   ELSE {})
  \cup (IF "reown" \in EditKinds
        THEN UNION {{[k |-> "reown", j |-> j, i |-> i, x |-> "", lo |-> 0, hi |-> late] :
                        i \in {i \in 1..NF : /\ model.feats[i].name # model.rels[j].owner
                                              /\ model.feats[i].name \notin UNION {SubtreeOf(c) : c \in Kids(model.rels[j])}},
                        late \in {0, 1}} :     \* 1: Relation.parent is assigned AFTER add_relation (both orders are legal uses)
                    j \in DOMAIN model.rels}
        ELSE {})
  \cup (IF "import" \in EditKinds
        THEN {[k |-> "import", j |-> 0, i |-> i, x |-> "", lo |-> 0, hi |-> 0] : i \in DOMAIN ImportSeq} ELSE {})
  \cup
  (IF "card" \in EditKinds
   THEN UNION {{[k |-> "card", j |-> j, i |-> 0, x |-> "", lo |-> c[1], hi |-> c[2]] :
                   c \in CardChoices(NKids(model.rels[j])) \ {<<model.rels[j].lo, model.rels[j].hi>>}} : j \in DOMAIN model.rels}
   ELSE {})
  \cup (IF "addchild" \in EditKinds
        THEN {[k |-> "addchild", j |-> j, i |-> 0, x |-> "", lo |-> 0, hi |-> 0] : j \in DOMAIN model.rels} ELSE {})
  \cup (IF "rmkid" \in EditKinds
        THEN UNION {{[k |-> "rmkid", j |-> j, i |-> i, x |-> "", lo |-> 0, hi |-> 0] :
                        i \in {i \in DOMAIN model.rels[j].kids :
                                 /\ IsLeaf(model, model.rels[j].kids[i]) /\ model.rels[j].kids[i] \notin CtcVars
                                 /\ NKids(model.rels[j]) >= 2
                                 /\ model.rels[j].lo <= NKids(model.rels[j]) - 1
                                 /\ (model.rels[j].hi = Star \/ model.rels[j].hi <= NKids(model.rels[j]) - 1)}} :
                    j \in DOMAIN model.rels}
        ELSE {})
  \cup (IF "replkid" \in EditKinds
        THEN UNION {{[k |-> "replkid", j |-> j, i |-> i, x |-> "", lo |-> 0, hi |-> 0] :
                        i \in {i \in DOMAIN model.rels[j].kids : IsLeaf(model, model.rels[j].kids[i])}} : j \in DOMAIN model.rels}
        ELSE {})
  \cup (IF "abs" \in EditKinds
        THEN {[k |-> "abs", j |-> 0, i |-> i, x |-> "", lo |-> 0, hi |-> 0] : i \in 1..NF} ELSE {})
  \cup (IF "attrval" \in EditKinds
        THEN UNION {{[k |-> "attrval", j |-> a, i |-> i, x |-> v.val, lo |-> 0, hi |-> 0] :
                        a \in DOMAIN model.feats[i].attrs, v \in {v \in AttrVals : v.val # "n"}} : i \in 1..NF}
        ELSE {})
  \cup (IF "attrname" \in EditKinds
        THEN UNION {{[k |-> "attrname", j |-> a, i |-> i, x |-> "", lo |-> 0, hi |-> 0] : a \in DOMAIN model.feats[i].attrs} : i \in 1..NF}
        ELSE {})
  \cup (IF "rmattr" \in EditKinds
        THEN UNION {{[k |-> "rmattr", j |-> a, i |-> i, x |-> "", lo |-> 0, hi |-> 0] : a \in DOMAIN model.feats[i].attrs} : i \in 1..NF}
        ELSE {})
  \cup (IF "rmctc" \in EditKinds
        THEN {[k |-> "rmctc", j |-> 0, i |-> i, x |-> "", lo |-> 0, hi |-> 0] : i \in DOMAIN model.ctcs} ELSE {})
  \cup (IF "ctcop" \in EditKinds
        THEN UNION {{[k |-> "ctcop", j |-> 0, i |-> i, x |-> o, lo |-> 0, hi |-> 0] :
                        o \in {o \in CtcBinOps : model.ctcs[i].ast.op \in CtcBinOps /\ o # model.ctcs[i].ast.op}} :
                    i \in DOMAIN model.ctcs}
        ELSE {})
  \cup (IF "rename" \in EditKinds
        THEN {[k |-> "rename", j |-> 0, i |-> i, x |-> "", lo |-> 0, hi |-> 0] :
                 i \in {i \in 1..NF : model.feats[i].name \notin CtcVars}}
        ELSE {})

EditBy(d) ==
  /\ EditPhase /\ EnterEdit
  /\ CASE d.k = "card" ->
            /\ model' = SetCardF(model, d.j, d.lo, d.hi)
            /\ hist'  = Append(hist, [a |-> "EditCard", o |-> Ref(d.j).o, ri |-> Ref(d.j).ri, lo |-> d.lo, hi |-> d.hi])
       [] d.k = "addchild" ->
            /\ model' = AddChildF(model, d.j, FreshName)
            /\ hist'  = Append(hist, [a |-> "EditAddChild", o |-> Ref(d.j).o, ri |-> Ref(d.j).ri, n |-> FreshName])
       [] d.k = "rmkid" ->
            /\ model' = RemoveKidF(model, d.j, d.i)
            /\ hist'  = Append(hist, [a |-> "EditRemoveKid", o |-> Ref(d.j).o, ri |-> Ref(d.j).ri, n |-> model.rels[d.j].kids[d.i]])
       [] d.k = "move" ->
            /\ model.rels[d.lo].owner \notin SubtreeOf(model.rels[d.j].kids[d.i])
            /\ model' = MoveKidF(model, d.j, d.i, d.lo)
            /\ hist'  = Append(hist, [a |-> "EditMove", o |-> Ref(d.j).o, ri |-> Ref(d.j).ri, n |-> model.rels[d.j].kids[d.i],
                                      o2 |-> Ref(d.lo).o, ri2 |-> Ref(d.lo).ri])
       [] d.k = "reown" ->
            /\ model' = ReOwnF(model, d.j, model.feats[d.i].name)
            /\ hist'  = Append(hist, [a |-> "EditReown", o |-> Ref(d.j).o, ri |-> Ref(d.j).ri, o2 |-> model.feats[d.i].name, late |-> d.hi])
       [] d.k = "import" ->
            LET new == <<[name |-> "i1", ast |-> ImportSeq[d.i][1]], [name |-> "i2", ast |-> ImportSeq[d.i][2]]>>
            IN  /\ model' = ImportF(model, new)
                /\ hist'  = Append(hist, [a |-> "EditImport", ctcs |-> new])
       [] d.k = "replkid" ->
            /\ model' = ReplaceKidF(model, d.j, d.i)
            /\ hist'  = Append(hist, [a |-> "EditReplaceKid", o |-> Ref(d.j).o, ri |-> Ref(d.j).ri, n |-> model.rels[d.j].kids[d.i]])
       [] d.k = "abs" ->
            /\ model' = ToggleAbstractF(model, model.feats[d.i].name)
            /\ hist'  = Append(hist, [a |-> "EditAbstract", f |-> model.feats[d.i].name])
       [] d.k = "attrval" ->
            /\ model.feats[d.i].attrs[d.j].val # d.x
            /\ model' = SetAttrValF(model, model.feats[d.i].name, d.j, d.x)
            /\ hist'  = Append(hist, [a |-> "EditAttrVal", f |-> model.feats[d.i].name, k |-> d.j, val |-> d.x])
       [] d.k = "attrname" ->
            LET fresh == "a" \o ToString(Len(AttrNames) + 1 + Cardinality({h \in DOMAIN hist : hist[h].a = "EditAttrName"}))
            IN  /\ model' = SetAttrNameF(model, model.feats[d.i].name, d.j, fresh)
                /\ hist'  = Append(hist, [a |-> "EditAttrName", f |-> model.feats[d.i].name, k |-> d.j, n |-> fresh])
       [] d.k = "rmattr" ->
            /\ model' = RemoveAttrF(model, model.feats[d.i].name, d.j)
            /\ hist'  = Append(hist, [a |-> "EditRemoveAttr", f |-> model.feats[d.i].name, k |-> d.j])
       [] d.k = "rmctc" ->
            /\ model' = RemoveCtcF(model, d.i)
            /\ hist'  = Append(hist, [a |-> "EditRemoveCtc", i |-> d.i])
       [] d.k = "ctcop" ->
            /\ model' = SetCtcOpF(model, d.i, d.x)
            /\ hist'  = Append(hist, [a |-> "EditCtcOp", i |-> d.i, op |-> d.x])
       [] d.k = "rename" ->
            /\ model' = RenameF(model, model.feats[d.i].name, FreshName)
            /\ hist'  = Append(hist, [a |-> "EditRename", f |-> model.feats[d.i].name, n |-> FreshName])

EditStep == \E d \in EditChoices : EditBy(d)

Step ==
  \/ EditStep
  \/ \E o \in 1..N, k \in 1..MaxKids : \E c \in CardChoices(k) : AddRelation(o, k, c[1], c[2])
  \/ \E i \in 1..N : SetAbstract(i)
  \/ \E i \in 1..N, t \in Types : SetType(i, t)
  \/ \E i \in 1..N, c \in FCards : SetFCard(i, c)
  \/ \E i \in 1..N, k \in DOMAIN AttrNames, v \in AttrVals : AddAttribute(i, k, v)
  \/ /\ "ctc" \in Axes /\ Len(model.ctcs) < MaxCtc /\ CtcReady
     /\ \E t \in TreesOver(Names(model), CtcBinOps, CtcDepth)
                 \cup (IF CtcArith THEN ArithTrees(Names(model)) ELSE {})
                 \cup (IF CtcEqShape THEN EqShapeTrees(Names(model)) ELSE {})
                 \cup {ChainT(c[1], SetToSeq(Names(model)), c[2]) : c \in CtcChains} : AddConstraint(t)

\* Random larger models without -simulate (which would evaluate - and print - every sibling):
\* each walk takes ONE seeded random step per state, so a walk is a single behaviour and every
\* state on it is a model.  A step whose random parameters are not enabled ends the walk.
MinI(a, b) == IF a < b THEN a ELSE b
Later(s) == IF stage < s THEN 1..NF ELSE IF stage = s THEN {i \in 1..NF : i > pos} ELSE {}
\* A deterministic pseudo-random choice (TLC's RandomElement is not reproducible under -seed in
\* model-checking mode): a hash of (Seed, walk, level, salt) indexes the set in TLC's own order.
\* All intermediate products stay below 2^31.
HM == 46337
Mix(x, y) == ((x % HM) * 263 + (y % HM) * 71 + 12345) % HM
Hash(salt) == Mix(Mix(Mix(Mix(Seed, walk), TLCGet("level")), salt), Len(hist) * 7 + NF)
PickS(S, salt) == LET q == SetToSeq(S) IN q[(Hash(salt) % Len(q)) + 1]
AttrCodes == {c \in (1..NF) \X DOMAIN AttrNames : stage < 4 \/ c[1] * 10 + c[2] > pos}
CanGrow == stage = 5 /\ model.ctcs # <<>> /\ pos < CtcGrow /\ IsLogicalT(model.ctcs[Len(model.ctcs)].ast)
KindEnabled(kd) ==
  CASE kd = "abs"   -> Later(1) # {}
    [] kd = "type"  -> Later(2) # {} /\ Types # {}
    [] kd = "fcard" -> Later(3) # {} /\ FCards # {}
    [] kd = "attr"  -> stage <= 4 /\ AttrCodes # {} /\ AttrVals # {}
    [] kd = "ctc"   -> (Len(model.ctcs) < MaxCtc /\ CtcReady) \/ CanGrow
    [] OTHER -> FALSE
RandomStep ==
  LET kinds == {kd \in Axes : KindEnabled(kd)}
      grow  == stage = 0 /\ NF < N
  IN
  \E r \in {PickS(1..100, 1)} :
      IF EditPhase /\ EditChoices # {} /\ (stage = 6 \/ PickS(1..100, 21) <= 25 \/ (~grow /\ kinds = {}))
      THEN \E d \in {PickS(EditChoices, 22)} : EditBy(d)
      ELSE IF grow /\ (r <= 70 \/ kinds = {})
      THEN \E o \in {PickS(pos..NF, 2)}, k \in {PickS(1..MinI(MaxKids, N - NF), 3)} :
              \E c \in {PickS(CardChoices(k), 4)} : AddRelation(o, k, c[1], c[2])
      ELSE kinds # {} /\ \E kd \in {PickS(kinds, 5)} :
             CASE kd = "abs"   -> \E i \in {PickS(Later(1), 6)} : SetAbstract(i)
               [] kd = "type"  -> \E i \in {PickS(Later(2), 7)}, t \in {PickS(Types, 8)} : SetType(i, t)
               [] kd = "fcard" -> \E i \in {PickS(Later(3), 9)}, c \in {PickS(FCards, 10)} : SetFCard(i, c)
               [] kd = "attr"  -> \E c \in {PickS(AttrCodes, 11)}, v \in {PickS(AttrVals, 13)} : AddAttribute(c[1], c[2], v)
               [] kd = "ctc"   -> IF CanGrow /\ (PickS(1..3, 15) <= 2 \/ ~(Len(model.ctcs) < MaxCtc /\ CtcReady))
                                  THEN \E s \in {PickS(TreesOver(Names(model), CtcBinOps, 1), 16)},
                                          o \in {PickS(CtcBinOps, 17)}, k \in {PickS(1..6, 18)} :
                                         LET t == model.ctcs[Len(model.ctcs)].ast
                                         IN  ReplaceConstraint(IF k <= 2 THEN Bin(o, t, s) ELSE IF k <= 4 THEN Bin(o, s, t)
                                                               ELSE IF k = 5 THEN Un("NOT", t) ELSE Un("NOT", Un("NOT", t)))
                                  ELSE \E t \in {PickS(TreesOver(Names(model), CtcBinOps, CtcDepth)
                                            \cup (IF CtcArith THEN ArithTrees(Names(model)) ELSE {})
                                            \cup {ChainT(c[1], SetToSeq(Names(model)), c[2]) : c \in CtcChains}, 14)} : AddConstraint(t)

\* a chain: each relation hangs under the feature created last
ChainOnly == \A j \in DOMAIN model.rels : model.rels[j].owner = FName(j)
ShapeOK == Shape = "" \/ (Shape = "chain" /\ ChainOnly)
Next == /\ TLCGet("level") < MaxLevel
        /\ (IF Walks = 0 THEN Step ELSE RandomStep) /\ UNCHANGED walk
        /\ base' = (IF stage' = 6 /\ stage < 6 THEN model ELSE base)
        /\ ShapeOK'

Spec == Init /\ [][Next]_vars

LevelBound == TLCGet("level") <= MaxLevel


---------------------------------------------------------------------------
(* Case emission: one JSON line per distinct state (generator runs only)   *)
Emit == ((Fmt = "" \/ InFrag(Fmt, model)) /\ (Fmt2 = "" \/ InFrag(Fmt2, model)))
           => PrintT(ToJson(IF stage = 6 THEN [hist |-> hist, model |-> model, base |-> base]
                                         ELSE [hist |-> hist, model |-> model]))

\* under -simulate every sibling successor is evaluated: print only the states at the final level
EmitSim == Emit

---------------------------------------------------------------------------
(* Design-level invariants and the oracle lemmas (DESIGN 3.4).  A violated *)
(* lemma is a specification bug; the checks stop with exit 2.              *)

\* action properties of the design (PROPERTY in the generator runs): construction only ever adds - features,
\* relations and constraints of a state are still there in the next one - and hist grows by exactly one call
BuildMonotone == [][stage' < 6 => /\ Names(model) \subseteq Names(model')
                                  /\ IsPrefix(model.rels, model'.rels)
                                  /\ Len(model.ctcs) <= Len(model'.ctcs)
                                  /\ model'.root = model.root]_vars
HistGrows     == [][Len(hist') = Len(hist) + 1 /\ SubSeq(hist', 1, Len(hist)) = hist]_vars
\* an edit history keeps the model it started from
BaseKept      == [][stage = 6 => base' = base]_vars

InvWellFormed == WellFormedTree(model) /\ (IF OverHi THEN WfCardsOver(model) ELSE WfCards(model))
InvHistReplay == Len(hist) >= 1        \* hist is total

\* L1: the six class predicates partition every admissible (n, lo, hi)
L1_KindPartition ==
  \A j \in DOMAIN model.rels :
     LET r == model.rels[j] IN Cardinality({k \in Kinds : KindOf(r) = k}) = 1
\* L2: the preorder listing contains every feature exactly once
L2_Preorder == SameBag(Preorder(model, model.root), NameSeq(model))
\* L3: closed-form count = brute force, on the tree
L3_Count == CountRec(model) = Cardinality(TreeConfigs(model))
\* L4: forced closure = core when there are no constraints, subset otherwise
L4_Core == /\ Forced(model) \subseteq Core(model)
           /\ (NoCtc(model) /\ TreeConfigs(model) # {}) => Forced(model) = Core(model)
\* L5: the partition into maximal mandatory chains satisfies the atomic-set contract
RECURSIVE ChainRoot(_, _)
ChainRoot(m, f) == IF IsMandatoryChild(m, f) THEN ChainRoot(m, TreeParent(m, f)) ELSE f
ChainSets(m) == LET roots == {ChainRoot(m, f) : f \in Names(m)}
                    SetSeq == SetToSeq(roots)
                IN  [i \in DOMAIN SetSeq |-> SetToSeq({f \in Names(m) : ChainRoot(m, f) = SetSeq[i]})]
L5_Atomic == /\ AtomicPartition(model, ChainSets(model))
             /\ AtomicCoSelected(model, ChainSets(model))
             /\ AtomicMandChain(model, ChainSets(model))
=============================================================================
