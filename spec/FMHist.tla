------------------------------- MODULE FMHist -------------------------------
(***************************************************************************)
(* Generator of HISTORIES (family `Hist`, C19/C17/C12): which operation    *)
(* object analyses which models of a pool, in which order; and the         *)
(* parameter space of the one mutating operation (random attribute         *)
(* generation).  Behaviours are call sequences on one operation object.    *)
(***************************************************************************)
EXTENDS Naturals, Sequences, TLC, Json

CONSTANTS Ops,        \* operation kinds
          PoolSize,   \* models are referred to by index into a pool
          MaxLen,     \* max executions on one object
          DomShapes,  \* domain shapes of GenAttr
          Seeds

VARIABLES kind, op, seq, gen
hvars == <<kind, op, seq, gen>>

NoGen == [shape |-> "", leaves |-> FALSE, seed |-> 0, model |-> 0]

Init == \/ /\ kind = "exec" /\ op \in Ops /\ seq = <<>> /\ gen = NoGen
        \/ /\ kind = "genattr" /\ op = "genattr" /\ seq = <<>>
           /\ gen \in [shape : DomShapes, leaves : BOOLEAN, seed : Seeds, model : 1..PoolSize]

Exec(i) == /\ kind = "exec" /\ Len(seq) < MaxLen
           /\ seq' = Append(seq, i) /\ UNCHANGED <<kind, op, gen>>
Next == \E i \in 1..PoolSize : Exec(i)
Spec == Init /\ [][Next]_hvars

LevelBound == TRUE
Emit == PrintT(ToJson([kind |-> kind, op |-> op, seq |-> seq, gen |-> gen]))
TypeOK == Len(seq) <= MaxLen /\ \A k \in DOMAIN seq : seq[k] \in 1..PoolSize
=============================================================================
