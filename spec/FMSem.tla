------------------------------- MODULE FMSem -------------------------------
(***************************************************************************)
(* What a feature model MEANS: its set of valid configurations, stated     *)
(* declaratively.  This is the independent brute-force enumerator that     *)
(* C10-C15 refer to: TLC evaluates it over all 2^n selections.             *)
(***************************************************************************)
EXTENDS FMAst

RelOK(r, S) == LET c == Cardinality(Kids(r) \cap S)
               IN  IF r.owner \in S THEN r.lo <= c /\ c <= EffHi(r) ELSE c = 0

TreeValid(m, S) == /\ m.root \in S
                   /\ \A j \in DOMAIN m.rels : RelOK(m.rels[j], S)
CtcValid(m, S)  == \A i \in DOMAIN m.ctcs :
                      IsPropT(m.ctcs[i].ast) => EvalN(m.ctcs[i].ast, S)
Valid(m, S)     == TreeValid(m, S) /\ CtcValid(m, S)

TreeConfigs(m) == {S \in SUBSET Names(m) : TreeValid(m, S)}
Configs(m)     == {S \in TreeConfigs(m) : CtcValid(m, S)}

NoCtc(m) == m.ctcs = <<>>

\* closed form used only to cross-check the brute force (lemma L3)
RECURSIVE ESym(_, _)
ESym(cs, k) == IF k = 0 THEN 1 ELSE IF Len(cs) < k THEN 0
               ELSE ESym(Tail(cs), k) + Head(cs) * ESym(Tail(cs), k - 1)
RECURSIVE Cnt(_, _)
Cnt(m, f) ==
  LET rs == RelsOf(m, f)
      RelCnt(r) == LET cs == [i \in DOMAIN r.kids |-> Cnt(m, r.kids[i])]
                   IN  SumSeq([k \in 1..(EffHi(r) - r.lo + 1) |-> ESym(cs, r.lo + k - 1)])
  IN  FoldLeft(LAMBDA acc, r : acc * RelCnt(r), 1, rs)
CountRec(m) == Cnt(m, m.root)

Core(m) == {f \in Names(m) : \A S \in Configs(m) : f \in S}
CoSelected(m, a, b) == \A S \in Configs(m) : (a \in S) <=> (b \in S)
IsMandatoryChild(m, f) == \E j \in DOMAIN m.rels :
                             m.rels[j].kids = <<f>> /\ m.rels[j].lo = 1 /\ m.rels[j].hi = 1

\* closure of the root under relations that force all their children (lemma L4)
RECURSIVE ForcedFrom(_, _)
ForcedFrom(m, F) ==
  LET more == UNION {Kids(m.rels[j]) : j \in {j \in DOMAIN m.rels :
                        m.rels[j].owner \in F /\ m.rels[j].lo = NKids(m.rels[j])
                        /\ EffHi(m.rels[j]) >= m.rels[j].lo}}
  IN  IF more \subseteq F THEN F ELSE ForcedFrom(m, F \cup more)
Forced(m) == ForcedFrom(m, {m.root})

---------------------------------------------------------------------------
(* Result relations of the semantic operations *)

\* C13: sets is a sequence of sets of names
EstExact(m, n) == NoCtc(m) => n = Cardinality(Configs(m))
EstUpper(m, n) == n >= Cardinality(Configs(m))

\* C14: res is a sequence of names
CoreOnce(res)        == NoDup(res)
CoreRoot(m, res)     == m.root \in SetOf(res)
CoreSound(m, res)    == \A i \in DOMAIN res : res[i] \in Names(m) /\ res[i] \in Core(m)
CoreComplete(m, res) == NoCtc(m) => SetOf(res) = Core(m)

\* C15: sets is a sequence of sequences of names
AtomicPartition(m, sets) ==
  /\ \A i \in DOMAIN sets : sets[i] # <<>> /\ NoDup(sets[i])
  /\ \A f \in Names(m) : Cardinality({i \in DOMAIN sets : f \in SetOf(sets[i])}) = 1
  /\ \A i \in DOMAIN sets : SetOf(sets[i]) \subseteq Names(m)
AtomicCoSelected(m, sets) ==
  \A i \in DOMAIN sets : \A a, b \in SetOf(sets[i]) : a \in Names(m) /\ b \in Names(m) => CoSelected(m, a, b)
AtomicMandChain(m, sets) ==
  \A f \in Names(m) : IsMandatoryChild(m, f) =>
     \E i \in DOMAIN sets : f \in SetOf(sets[i]) /\ TreeParent(m, f) \in SetOf(sets[i])
=============================================================================
