--------------------------- MODULE FMKindProofs ---------------------------
(***************************************************************************)
(* Lemma L1 for ALL cardinalities, not only those of the bounded models:   *)
(* the six relation predicates, transcribed from class Relation of         *)
(* models/feature_model.py, partition every (number of children, card_min, *)
(* card_max), and the class they select is FMBase!Kind.  Checked by the    *)
(* TLA+ proof system (tlapm, SMT back end): `tools/prove.sh`.  The binding *)
(* of the transcription to the code is the C03.kind.* clauses of the trace *)
(* specification, which compare each predicate of the real Relation with   *)
(* Kind on every generated model.                                          *)
(***************************************************************************)
EXTENDS Integers, TLAPS

IsMandatory(n, lo, hi)   == lo = 1 /\ hi = 1 /\ n = 1
IsOptional(n, lo, hi)    == lo = 0 /\ hi = 1 /\ n = 1
IsOr(n, lo, hi)          == lo = 1 /\ hi = n /\ n > 1
IsAlternative(n, lo, hi) == lo = 1 /\ hi = 1 /\ n > 1
IsMutex(n, lo, hi)       == lo = 0 /\ hi = 1 /\ n > 1
IsCardinal(n, lo, hi)    == /\ ~IsMandatory(n, lo, hi) /\ ~IsOptional(n, lo, hi) /\ ~IsAlternative(n, lo, hi)
                            /\ ~IsOr(n, lo, hi) /\ ~IsMutex(n, lo, hi)

\* FMBase!Kind, verbatim
Kind(n, lo, hi) ==
  IF n = 1 THEN IF lo = 1 /\ hi = 1 THEN "mandatory"
                ELSE IF lo = 0 /\ hi = 1 THEN "optional" ELSE "cardinality"
  ELSE IF lo = 1 /\ hi = 1 THEN "alternative"
  ELSE IF lo = 1 /\ hi = n THEN "or"
  ELSE IF lo = 0 /\ hi = 1 THEN "mutex" ELSE "cardinality"

THEOREM AtLeastOne ==
  \A n \in Nat \ {0}, lo \in Int, hi \in Int :
     \/ IsMandatory(n, lo, hi) \/ IsOptional(n, lo, hi) \/ IsOr(n, lo, hi)
     \/ IsAlternative(n, lo, hi) \/ IsMutex(n, lo, hi) \/ IsCardinal(n, lo, hi)
  BY DEF IsMandatory, IsOptional, IsOr, IsAlternative, IsMutex, IsCardinal

THEOREM AtMostOne ==
  \A n \in Nat \ {0}, lo \in Int, hi \in Int :
     /\ ~(IsMandatory(n, lo, hi) /\ IsOptional(n, lo, hi))
     /\ ~(IsMandatory(n, lo, hi) /\ IsOr(n, lo, hi))
     /\ ~(IsMandatory(n, lo, hi) /\ IsAlternative(n, lo, hi))
     /\ ~(IsMandatory(n, lo, hi) /\ IsMutex(n, lo, hi))
     /\ ~(IsMandatory(n, lo, hi) /\ IsCardinal(n, lo, hi))
     /\ ~(IsOptional(n, lo, hi) /\ IsOr(n, lo, hi))
     /\ ~(IsOptional(n, lo, hi) /\ IsAlternative(n, lo, hi))
     /\ ~(IsOptional(n, lo, hi) /\ IsMutex(n, lo, hi))
     /\ ~(IsOptional(n, lo, hi) /\ IsCardinal(n, lo, hi))
     /\ ~(IsOr(n, lo, hi) /\ IsAlternative(n, lo, hi))
     /\ ~(IsOr(n, lo, hi) /\ IsMutex(n, lo, hi))
     /\ ~(IsOr(n, lo, hi) /\ IsCardinal(n, lo, hi))
     /\ ~(IsAlternative(n, lo, hi) /\ IsMutex(n, lo, hi))
     /\ ~(IsAlternative(n, lo, hi) /\ IsCardinal(n, lo, hi))
     /\ ~(IsMutex(n, lo, hi) /\ IsCardinal(n, lo, hi))
  BY DEF IsMandatory, IsOptional, IsOr, IsAlternative, IsMutex, IsCardinal

THEOREM KindAgrees ==
  \A n \in Nat \ {0}, lo \in Int, hi \in Int :
     /\ IsMandatory(n, lo, hi)   <=> Kind(n, lo, hi) = "mandatory"
     /\ IsOptional(n, lo, hi)    <=> Kind(n, lo, hi) = "optional"
     /\ IsOr(n, lo, hi)          <=> Kind(n, lo, hi) = "or"
     /\ IsAlternative(n, lo, hi) <=> Kind(n, lo, hi) = "alternative"
     /\ IsMutex(n, lo, hi)       <=> Kind(n, lo, hi) = "mutex"
     /\ IsCardinal(n, lo, hi)    <=> Kind(n, lo, hi) = "cardinality"
  BY DEF Kind, IsMandatory, IsOptional, IsOr, IsAlternative, IsMutex, IsCardinal
=============================================================================
