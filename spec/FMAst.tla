------------------------------- MODULE FMAst -------------------------------
(***************************************************************************)
(* Constraint expression trees and their meaning.                          *)
(*   node = [op, v, l, r];  Nil == [op |-> "NIL"] stands for a missing     *)
(*   operand, so "NOT with its operand on the right" is representable (and *)
(*   rejected by WellShaped).  Leaves: VAR (a name), INT/NUM/STR literals. *)
(* Meaning of the eight logical operators is given by truth tables over    *)
(* sets of true atoms; a maximal non-logical sub-tree (comparison,         *)
(* arithmetic, aggregate) is one opaque atom compared structurally.        *)
(***************************************************************************)
EXTENDS FMBase

Nil == [op |-> "NIL"]
Var(n)       == [op |-> "VAR", v |-> n, l |-> Nil, r |-> Nil]
Lit(k, x)    == [op |-> k, v |-> x, l |-> Nil, r |-> Nil]
Un(o, a)     == [op |-> o, v |-> "", l |-> a, r |-> Nil]
Bin(o, a, b) == [op |-> o, v |-> "", l |-> a, r |-> b]

LeafOps   == {"VAR", "INT", "NUM", "STR"}
LogicBin  == {"AND", "OR", "XOR", "IMPLIES", "REQUIRES", "EXCLUDES", "EQUIVALENCE"}
LogicOps  == LogicBin \cup {"NOT"}
CompOps   == {"EQUALS", "LOWER", "GREATER", "LOWER_EQUALS", "GREATER_EQUALS", "NOT_EQUALS"}
ArithBin  == {"ADD", "SUB", "MUL", "DIV"}
ArithOps  == ArithBin \cup CompOps          \* the library's ARITHMETIC_OPERATORS
AggrOps   == {"SUM", "AVG", "LEN", "FLOOR", "CEIL"}
AllOps    == LogicOps \cup ArithOps \cup AggrOps

IsNil(t)  == t.op = "NIL"
IsLeaf_(t) == t.op \in LeafOps

RECURSIVE WellShaped(_)
WellShaped(t) ==
  CASE t.op = "NIL"      -> FALSE
    [] t.op \in LeafOps  -> IsNil(t.l) /\ IsNil(t.r)
    [] t.op = "NOT"      -> ~IsNil(t.l) /\ IsNil(t.r) /\ WellShaped(t.l)
    [] t.op \in AggrOps  -> ~IsNil(t.l) /\ WellShaped(t.l) /\ (IsNil(t.r) \/ WellShaped(t.r))
    [] t.op \in LogicBin \cup ArithOps
                         -> ~IsNil(t.l) /\ ~IsNil(t.r) /\ WellShaped(t.l) /\ WellShaped(t.r)
    [] OTHER             -> FALSE

RECURSIVE OpsOf(_)
OpsOf(t) == IF t.op = "NIL" \/ t.op \in LeafOps THEN {}
            ELSE {t.op} \cup OpsOf(t.l) \cup OpsOf(t.r)
RECURSIVE VarsOf(_)
VarsOf(t) == IF t.op = "NIL" THEN {} ELSE IF t.op = "VAR" THEN {t.v}
             ELSE IF t.op \in LeafOps THEN {} ELSE VarsOf(t.l) \cup VarsOf(t.r)
RECURSIVE DepthT(_)
DepthT(t) == IF t.op = "NIL" THEN 0 ELSE IF t.op \in LeafOps THEN 0
             ELSE 1 + (IF DepthT(t.l) > DepthT(t.r) THEN DepthT(t.l) ELSE DepthT(t.r))
RECURSIVE SizeT(_)
SizeT(t) == IF t.op = "NIL" THEN 0 ELSE 1 + SizeT(t.l) + SizeT(t.r)

IsLogicalT(t)  == OpsOf(t) \subseteq LogicOps
IsArithT(t)    == OpsOf(t) \cap ArithOps # {}
IsAggrT(t)     == OpsOf(t) \cap AggrOps # {}
\* purely propositional over feature names: every leaf is a VAR
RECURSIVE AllVarLeaves(_)
AllVarLeaves(t) == IF t.op = "NIL" THEN TRUE ELSE IF t.op \in LeafOps THEN t.op = "VAR"
                   ELSE AllVarLeaves(t.l) /\ AllVarLeaves(t.r)
IsPropT(t) == IsLogicalT(t) /\ AllVarLeaves(t)

---------------------------------------------------------------------------
(* Semantics *)

RECURSIVE Atoms(_)
Atoms(t) == IF t.op = "NIL" THEN {}
            ELSE IF t.op \in LogicOps THEN Atoms(t.l) \cup Atoms(t.r) ELSE {t}

RECURSIVE EvalA(_, _)
EvalA(t, A) ==
  CASE t.op = "NIL"         -> FALSE
    [] t.op = "NOT"         -> ~EvalA(t.l, A)
    [] t.op = "AND"         -> EvalA(t.l, A) /\ EvalA(t.r, A)
    [] t.op = "OR"          -> EvalA(t.l, A) \/ EvalA(t.r, A)
    [] t.op = "XOR"         -> EvalA(t.l, A) # EvalA(t.r, A)
    [] t.op = "IMPLIES"     -> EvalA(t.l, A) => EvalA(t.r, A)
    [] t.op = "REQUIRES"    -> EvalA(t.l, A) => EvalA(t.r, A)
    [] t.op = "EXCLUDES"    -> ~(EvalA(t.l, A) /\ EvalA(t.r, A))
    [] t.op = "EQUIVALENCE" -> EvalA(t.l, A) <=> EvalA(t.r, A)
    [] OTHER                -> t \in A

\* a set S of selected feature NAMES as an atom valuation
EvalN(t, S) == EvalA(t, {Var(n) : n \in S})

Equiv(s, t) == \A A \in SUBSET (Atoms(s) \cup Atoms(t)) : EvalA(s, A) = EvalA(t, A)

RECURSIVE AndAll(_)
AndAll(ts) == IF Len(ts) = 1 THEN ts[1] ELSE Bin("AND", AndAll(SubSeq(ts, 1, Len(ts) - 1)), ts[Len(ts)])
\* the conjunction of a non-empty sequence of trees is equivalent to t
ConjEquiv(t, ts) ==
  /\ Len(ts) >= 1
  /\ LET At == Atoms(t) \cup UNION {Atoms(ts[i]) : i \in DOMAIN ts}
     IN  \A A \in SUBSET At : EvalA(t, A) = (\A i \in DOMAIN ts : EvalA(ts[i], A))

---------------------------------------------------------------------------
(* NAMED DEVIATION dep-simplify.  flamapy.core.models.ast.simplify_formula *)
(* (a dependency, not part of this repository) rewrites  P <=> Q  and      *)
(* P xor Q  wrongly: a local variable is overwritten before its second     *)
(* use, so  P <=> Q  becomes  (P => Q) /\ (Q => (P => Q))  and  P xor Q    *)
(* becomes  ((not (P /\ not Q)) /\ Q) \/ Q.  DepSimplify is the meaning of  *)
(* what that function returns; a failing step is attributed to this known  *)
(* finding only if the logged result is exactly what DepSimplify explains. *)
RECURSIVE DepSimplify(_)
DepSimplify(t) ==
  CASE t.op = "XOR"         -> Bin("OR", DepSimplify(t.r), t.r)
    [] t.op = "EQUIVALENCE" -> Bin("IMPLIES", DepSimplify(t.l), DepSimplify(t.r))
    [] t.op \in {"AND", "OR", "IMPLIES", "REQUIRES", "EXCLUDES"}
                            -> Bin(t.op, DepSimplify(t.l), DepSimplify(t.r))
    [] t.op = "NOT"         -> Un("NOT", DepSimplify(t.l))
    [] OTHER                -> t
HasDepOps(t) == OpsOf(t) \cap {"XOR", "EQUIVALENCE"} # {}
\* NAMED DEVIATION dep-nested.  The same function copies the right operand of an XOR into its result
\* WITHOUT simplifying it; AST.get_clauses (same dependency) then meets operators it has no case for
\* and emits unrelated literals.  What comes out is not modelled: a failing SPLOT step is attributed
\* to this finding only if some constraint has an XOR whose right operand contains an operator
\* other than AND / OR / NOT.
RECURSIVE HasRawRight(_)
HasRawRight(t) == IF t.op = "NIL" \/ t.op \in LeafOps THEN FALSE
                  ELSE \/ (t.op = "XOR" /\ ~(OpsOf(t.r) \subseteq {"AND", "OR", "NOT"}))
                       \/ HasRawRight(t.l) \/ HasRawRight(t.r)

---------------------------------------------------------------------------
(* The documented simple forms (C18) *)

IsVarT(t)    == t.op = "VAR"
IsNotVarT(t) == t.op = "NOT" /\ IsVarT(t.l)

ReqForm(t) ==
  \/ t.op \in {"REQUIRES", "IMPLIES"} /\ IsVarT(t.l) /\ IsVarT(t.r)
  \/ t.op = "OR" /\ IsNotVarT(t.l) /\ IsVarT(t.r)
  \/ t.op = "OR" /\ IsVarT(t.l) /\ IsNotVarT(t.r)
ExcForm(t) ==
  \/ t.op = "EXCLUDES" /\ IsVarT(t.l) /\ IsVarT(t.r)
  \/ t.op \in {"REQUIRES", "IMPLIES"} /\ IsVarT(t.l) /\ IsNotVarT(t.r)
  \/ t.op = "OR" /\ IsNotVarT(t.l) /\ IsNotVarT(t.r)

ReqMeaning(a, b) == Bin("IMPLIES", Var(a), Var(b))
ExcMeaning(a, b) == Un("NOT", Bin("AND", Var(a), Var(b)))
IsSingleT(t) == t.op \in LeafOps \/ (t.op = "NOT" /\ t.l.op \in LeafOps)

---------------------------------------------------------------------------
(* Tree enumeration used by the generators *)

RECURSIVE TreesOver(_, _, _)
TreesOver(Ns, BinOps, d) ==
  IF d = 0 THEN {Var(n) : n \in Ns}
  ELSE LET sub == TreesOver(Ns, BinOps, d - 1)
       IN  sub \cup {Un("NOT", a) : a \in sub}
               \cup {Bin(o, a, b) : o \in BinOps, a \in sub, b \in sub}

\* one binary operator over two literals that carry up to k redundant negations each (the documented simple forms
\* and their redundantly negated variants: !!A | !B, A => !!!B, ...)
RECURSIVE NotChain(_, _)
NotChain(v, k) == IF k = 0 THEN v ELSE Un("NOT", NotChain(v, k - 1))
NegLitTrees(Ns, BinOps, K) ==
  LET L == {NotChain(Var(n), k) : n \in Ns, k \in 0..K}
  IN  {Bin(o, a, b) : o \in BinOps, a \in L, b \in L}

\* the shape readers build for an equivalence - a conjunction of two implications - with every
\* combination of literals in the four positions
EqShapeTrees(Ns) ==
  LET D == {Var(n) : n \in Ns} \cup {Un("NOT", Var(n)) : n \in Ns}
  IN  {Bin("AND", Bin("IMPLIES", p, q), Bin("IMPLIES", r, s)) : p \in D, q \in D, r \in D, s \in D}

\* comparison / arithmetic / aggregate constraints over the names Ns (UVL level)
\* long chains of one associative operator (n-ary rules of the exchange formats): n literals over the
\* names in turn, negated on every second round, nested to the left
ChainLit(ns, i) == LET v == Var(ns[((i - 1) % Len(ns)) + 1])
                   IN  IF ((i - 1) \div Len(ns)) % 2 = 1 THEN Un("NOT", v) ELSE v
RECURSIVE ChainT(_, _, _)
ChainT(op, ns, n) == IF n = 1 THEN ChainLit(ns, 1) ELSE Bin(op, ChainT(op, ns, n - 1), ChainLit(ns, n))

ArithTrees(Ns) ==
  LET vars  == {Var(n) : n \in Ns}
      atoms == vars \cup {Lit("INT", "3"), Lit("NUM", "2.5")}
      exprs == atoms \cup {Bin(a, u, v) : a \in ArithBin, u \in vars, v \in atoms}
                     \cup {Bin(g, Var("a1"), u) : g \in {"SUM", "AVG"}, u \in vars}
      cmps  == {Bin(c, x, y) : c \in CompOps, x \in exprs, y \in atoms}
      \* nested arithmetic, both ways round: every pair of operators (what decides where parentheses are needed)
      three == Lit("INT", "3")
      nested == {Bin(a, u, Bin(b, v, three)) : a \in ArithBin, b \in ArithBin, u \in vars, v \in vars}
                \cup {Bin(a, Bin(b, u, v), three) : a \in ArithBin, b \in ArithBin, u \in vars, v \in vars}
  IN  cmps \cup {Bin("EQUALS", x, three) : x \in nested} \cup {Bin(o, v, c) : o \in {"AND", "IMPLIES"}, v \in vars,
                              c \in {Bin("GREATER", x, Lit("INT", "3")) : x \in vars}}
               \cup {Un("NOT", Bin("EQUALS", x, Lit("STR", "'txt'"))) : x \in vars}
=============================================================================
