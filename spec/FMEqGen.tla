------------------------------ MODULE FMEqGen ------------------------------
(***************************************************************************)
(* Generator of model pairs (family `Eq`, C20): every model of the builder *)
(* state machine paired with (a) itself under each order-permutation       *)
(* strategy - the driver rebuilds an independent copy with children,       *)
(* relations and constraints reordered that way - and (b) each of its      *)
(* single-point edits.  Lemma L11: permutations keep SpecEq, edits break   *)
(* it, SpecEq is reflexive and symmetric.                                  *)
(***************************************************************************)
EXTENDS FM, FMEq

CONSTANTS Strategies

VARIABLES other, how, edit
evars == <<model, hist, stage, pos, walk, base, other, how, edit>>

NoEdit == [k |-> "", i |-> 0, j |-> 0, x |-> "", lo |-> 0, hi |-> 0]

EInit == Init /\ other = model /\ how = "none" /\ edit = NoEdit
Grow  == how = "none" /\ Next /\ other' = model' /\ UNCHANGED <<how, edit>>
Fork(s) == /\ how = "none" /\ Len(model.feats) > 1
           /\ how' = s /\ other' = model /\ UNCHANGED <<model, hist, stage, pos, walk, base, edit>>
Edit(e) == /\ how = "none" /\ EditOK(model, e)
           /\ how' = "edit" /\ edit' = e /\ other' = ApplyEdit(model, e)
           /\ UNCHANGED <<model, hist, stage, pos, walk, base>>
ENext == Grow \/ (\E s \in Strategies : Fork(s)) \/ (\E e \in Edits(model) : Edit(e))
ESpec == EInit /\ [][ENext]_evars

EEmit == how = "none" \/ PrintT(ToJson([hist |-> hist, model |-> model, other |-> other, how |-> how, edit |-> edit]))

L11_Eq == /\ SpecEq(model, model) /\ SpecEq(other, other)
          /\ SpecEq(model, other) = SpecEq(other, model)
          /\ (how \in Strategies \cup {"none"}) => SpecEq(model, other)
          /\ how = "edit" => ~SpecEq(model, other)
          /\ how = "edit" => WellFormedTree(other)
=============================================================================
