----------------------------- MODULE FMMetrics -----------------------------
(***************************************************************************)
(* The metrics report (C17): the forty metrics by definition over the      *)
(* model, and the contract of the report (each metric once, size = length, *)
(* ratio = size / size of the listing it is a share of, the splitting      *)
(* identities, agreement with the stand-alone operations).                 *)
(* R is the logged result: R.metrics is the sequence of report entries     *)
(* [name, kind, names, idx, len, x100, has_size, size, has_ratio, r4],     *)
(* R.ctc the per-constraint classification, R.agree the stand-alone        *)
(* operations' results.                                                    *)
(***************************************************************************)
EXTENDS FMOps

\* method name (what only_these_metrics takes) -> metric name
MetricTable == <<
  <<"features", "Features">>, <<"abstract_features", "Abstract features">>,
  <<"concrete_features", "Concrete features">>, <<"leaf_features", "Leaf features">>,
  <<"compound_features", "Compound features">>,
  <<"concrete_compound_features", "Concrete compound features">>,
  <<"concrete_leaf_features", "Concrete leaf features">>,
  <<"abstract_compound_features", "Abstract compound features">>,
  <<"abstract_leaf_features", "Abstract leaf features">>,
  <<"tree_relationships", "Tree relationships">>, <<"root_feature", "Root feature">>,
  <<"top_features", "Top features">>, <<"solitary_features", "Solitary features">>,
  <<"grouped_features", "Grouped features">>, <<"mandatory_features", "Mandatory features">>,
  <<"optional_features", "Optional features">>, <<"feature_groups", "Feature groups">>,
  <<"alternative_groups", "Alternative groups">>, <<"or_groups", "Or groups">>,
  <<"mutex_groups", "Mutex groups">>, <<"cardinality_groups", "Cardinality groups">>,
  <<"branching_factor", "Branching factor">>,
  <<"min_children_per_feature", "Min children per feature">>,
  <<"max_children_per_feature", "Max children per feature">>,
  <<"avg_children_per_feature", "Avg children per feature">>,
  <<"depth_tree", "Depth of tree">>, <<"max_depth_tree", "Max depth of tree">>,
  <<"mean_depth_tree", "Mean depth of tree">>, <<"median_depth_tree", "Median depth of tree">>,
  <<"cross_tree_constraints", "Cross-tree constraints">>,
  <<"simple_constraints", "Simple constraints">>, <<"requires_constraints", "Requires constraints">>,
  <<"excludes_constraints", "Excludes constraints">>, <<"complex_constraints", "Complex constraints">>,
  <<"pseudo_complex_constraints", "Pseudo-complex constraints">>,
  <<"strict_complex_constraints", "Strict-complex constraints">>,
  <<"min_constraints_per_feature", "Min constraints per feature">>,
  <<"max_constraints_per_feature", "Max constraints per feature">>,
  <<"avg_constraints_per_feature", "Avg constraints per feature">>,
  <<"extra_constraint_representativeness", "Features in constraints">> >>
MetricNames == [i \in DOMAIN MetricTable |-> MetricTable[i][2]]
NameOfMethod(meth) == LET S == {i \in DOMAIN MetricTable : MetricTable[i][1] = meth}
                      IN  IF S = {} THEN "?" ELSE MetricTable[CHOOSE i \in S : TRUE][2]
ExpectedNames(filtered, flt) ==
  IF ~filtered THEN MetricNames
  ELSE SelectSeq(MetricNames, LAMBDA n : \E k \in DOMAIN flt : NameOfMethod(flt[k]) = n)

---------------------------------------------------------------------------
(* Definitions *)
Sel(m, P(_))      == SelectSeq(NameSeq(m), P)
IsAbs(m, f)       == FeatOf(m, f).abs
HolderGrouped(m, f) == HoldersOf(m, f) # {} /\ IsGroupRel(HolderOf(m, f))
HolderSolitary(m, f) == HoldersOf(m, f) # {} /\ ~IsGroupRel(HolderOf(m, f))
HasGroupKind(m, f, k) == \E i \in DOMAIN RelsOf(m, f) : IsGroupRel(RelsOf(m, f)[i]) /\ KindOf(RelsOf(m, f)[i]) = k
NChildOf(m, f)    == Len(ChildSeq(m, f))
LeafDepths(m)     == LET ls == Sel(m, LAMBDA f : IsLeaf(m, f)) IN [i \in DOMAIN ls |-> DepthOf(m, ls[i])]
CtcVars(m, i)     == VarsOf(m.ctcs[i].ast)
CtcPerFeature(m)  == [k \in DOMAIN m.feats |->
                        Cardinality({i \in DOMAIN m.ctcs : m.feats[k].name \in CtcVars(m, i)})]
FeaturesInCtcs(m) == UNION {CtcVars(m, i) : i \in DOMAIN m.ctcs}
SortedSeq(s)      == SortSeq(s, LAMBDA a, b : a < b)

\* x100 is a correct two-decimal rounding of num/den
AvgOK(x100, num, den) == den > 0 /\ Abs(x100 * den - 100 * num) * 2 <= den
MedianOK(x100, s) ==
  LET t == SortedSeq(s)  n == Len(t)
  IN  n > 0 /\ IF n % 2 = 1 THEN x100 = 100 * t[(n + 1) \div 2]
               ELSE x100 = 50 * (t[n \div 2] + t[n \div 2 + 1])
\* r is size/base rounded to `digits` decimals, logged x10^4
Ratio4OK(r4, size, base) == IF base = 0 THEN r4 = 0 ELSE Abs(r4 * base - 10000 * size) * 2 <= base
Ratio2OK(r4, size, base) == IF base = 0 THEN r4 = 0
                            ELSE r4 % 100 = 0 /\ Abs((r4 \div 100) * base - 100 * size) * 2 <= base

---------------------------------------------------------------------------
MetricsClauses(m, args, R) ==
  LET E == R.metrics
      names == [i \in DOMAIN E |-> E[i].name]
      Has(n) == \E i \in DOMAIN E : E[i].name = n
      M(n)   == E[CHOOSE i \in DOMAIN E : E[i].name = n]
      P(i)   == R.ctc[i].preds
      CIdx(Q(_)) == SelectSeq([i \in DOMAIN m.ctcs |-> i], Q)
      \* listing of names equals the definition (as bags)
      DefNames(n, exp) == Has(n) => (M(n).kind = "names" /\ SameBag(M(n).names, exp))
      DefIdx(n, exp)   == Has(n) => (M(n).kind = "idx" /\ SameBag(M(n).idx, exp))
      DefScalar(n, ok(_)) == Has(n) => (M(n).kind = "scalar" /\ ok(M(n).x100))
      \* size = length ; ratio = size / size(base listing)
      SizeOK(n)  == Has(n) => (M(n).has_size => M(n).size = M(n).len)
      Base(n, base, prec) ==
         Has(n) => (M(n).has_ratio /\ M(n).has_size /\
                    IF prec = 4 THEN Ratio4OK(M(n).r4, M(n).size, base) ELSE Ratio2OK(M(n).r4, M(n).size, base))
      NoRatio(n) == Has(n) => ~M(n).has_ratio
      nF    == Len(m.feats)
      abs   == Sel(m, LAMBDA f : IsAbs(m, f))
      conc  == Sel(m, LAMBDA f : ~IsAbs(m, f))
      leaf  == Sel(m, LAMBDA f : IsLeaf(m, f))
      comp  == Sel(m, LAMBDA f : ~IsLeaf(m, f))
      sol   == Sel(m, LAMBDA f : HolderSolitary(m, f))
      grp   == Sel(m, LAMBDA f : HolderGrouped(m, f))
      fgrp  == Sel(m, LAMBDA f : NGroupRels(m, f) >= 1)
      simple  == CIdx(LAMBDA i : P(i).simple)
      complex == CIdx(LAMBDA i : P(i).complex)
      logical == CIdx(LAMBDA i : P(i).logical)
      depths == LeafDepths(m)
      cpf    == CtcPerFeature(m)
      L(n)   == IF Has(n) THEN (IF M(n).kind = "idx" THEN M(n).idx ELSE M(n).names) ELSE <<>>
      Both(a, b) == Has(a) /\ Has(b)
      Splits(a, b, whole) == Both(a, b) => SameBag(L(a) \o L(b), whole)
      Inside(a, whole)    == Has(a) => \A x \in SetOf(L(a)) : CountIn(L(a), x) <= CountIn(whole, x)
  IN
  << <<"C17.once", SameBag(names, ExpectedNames(args.filtered, args.filter))>>,
     <<"C17.size", \A i \in DOMAIN E : E[i].has_size => E[i].size = E[i].len>>,
     <<"C17.ratio.range", \A i \in DOMAIN E : E[i].has_ratio => (0 <= E[i].r4 /\ E[i].r4 <= 10000)>>,
     \* --- definitions of the listings
     <<"C17.def.features",  DefNames("Features", NameSeq(m))>>,
     <<"C17.def.abstract",  DefNames("Abstract features", abs)>>,
     <<"C17.def.concrete",  DefNames("Concrete features", conc)>>,
     <<"C17.def.leaf",      DefNames("Leaf features", leaf)>>,
     <<"C17.def.compound",  DefNames("Compound features", comp)>>,
     <<"C17.def.concrete_compound", DefNames("Concrete compound features", Sel(m, LAMBDA f : ~IsAbs(m, f) /\ ~IsLeaf(m, f)))>>,
     <<"C17.def.concrete_leaf",     DefNames("Concrete leaf features", Sel(m, LAMBDA f : ~IsAbs(m, f) /\ IsLeaf(m, f)))>>,
     <<"C17.def.abstract_compound", DefNames("Abstract compound features", Sel(m, LAMBDA f : IsAbs(m, f) /\ ~IsLeaf(m, f)))>>,
     <<"C17.def.abstract_leaf",     DefNames("Abstract leaf features", Sel(m, LAMBDA f : IsAbs(m, f) /\ IsLeaf(m, f)))>>,
     <<"C17.def.tree_relationships", Has("Tree relationships") => (M("Tree relationships").kind = "count" /\ M("Tree relationships").len = Len(m.rels))>>,
     <<"C17.def.root",      DefNames("Root feature", <<m.root>>)>>,
     <<"C17.def.top",       DefNames("Top features", ChildSeq(m, m.root))>>,
     <<"C17.def.solitary",  DefNames("Solitary features", sol)>>,
     <<"C17.def.grouped",   DefNames("Grouped features", grp)>>,
     <<"C17.def.mandatory", DefNames("Mandatory features", Sel(m, LAMBDA f : HolderKind(m, f) = "mandatory"))>>,
     <<"C17.def.optional",  DefNames("Optional features", Sel(m, LAMBDA f : HolderKind(m, f) = "optional"))>>,
     <<"C17.def.feature_groups", DefNames("Feature groups", fgrp)>>,
     <<"C17.def.alternative_groups", DefNames("Alternative groups", Sel(m, LAMBDA f : HasGroupKind(m, f, "alternative")))>>,
     <<"C17.def.or_groups",          DefNames("Or groups", Sel(m, LAMBDA f : HasGroupKind(m, f, "or")))>>,
     <<"C17.def.mutex_groups",       DefNames("Mutex groups", Sel(m, LAMBDA f : HasGroupKind(m, f, "mutex")))>>,
     <<"C17.def.cardinality_groups", DefNames("Cardinality groups", Sel(m, LAMBDA f : HasGroupKind(m, f, "cardinality")))>>,
     <<"C17.def.features_in_constraints", Has("Features in constraints") =>
          (M("Features in constraints").kind = "names" /\ NoDup(M("Features in constraints").names)
           /\ SetOf(M("Features in constraints").names) = FeaturesInCtcs(m))>>,
     \* --- constraint listings: the model's own classification of each constraint
     <<"C17.def.ctcs",     DefIdx("Cross-tree constraints", [i \in DOMAIN m.ctcs |-> i])>>,
     <<"C17.def.simple",   DefIdx("Simple constraints", simple)>>,
     <<"C17.def.requires", DefIdx("Requires constraints", CIdx(LAMBDA i : P(i).requires))>>,
     <<"C17.def.excludes", DefIdx("Excludes constraints", CIdx(LAMBDA i : P(i).excludes))>>,
     <<"C17.def.complex",  DefIdx("Complex constraints", complex)>>,
     <<"C17.def.pseudo",   DefIdx("Pseudo-complex constraints", CIdx(LAMBDA i : P(i).pseudocomplex))>>,
     <<"C17.def.strict",   DefIdx("Strict-complex constraints", CIdx(LAMBDA i : P(i).strictcomplex))>>,
     \* --- scalars
     <<"C17.def.branching_factor", DefScalar("Branching factor", LAMBDA x : NBranches(m) = 0 \/ RatioOK(x, NChildren(m), NBranches(m)))>>,
     <<"C17.def.min_children", DefScalar("Min children per feature",
          LAMBDA x : comp = <<>> \/ x = 100 * MinOf({NChildOf(m, comp[i]) : i \in DOMAIN comp}))>>,
     <<"C17.def.max_children", DefScalar("Max children per feature",
          LAMBDA x : x = 100 * MaxOf({NChildOf(m, f) : f \in Names(m)}))>>,
     <<"C17.def.avg_children", DefScalar("Avg children per feature", LAMBDA x : AvgOK(x, NChildren(m), nF))>>,
     <<"C17.def.depth",     DefScalar("Depth of tree", LAMBDA x : x = 100 * MaxDepth(m))>>,
     <<"C17.def.max_depth", DefScalar("Max depth of tree", LAMBDA x : x = 100 * MaxDepth(m))>>,
     <<"C17.def.mean_depth", DefScalar("Mean depth of tree", LAMBDA x : AvgOK(x, SumSeq(depths), Len(depths)))>>,
     <<"C17.def.median_depth", DefScalar("Median depth of tree", LAMBDA x : MedianOK(x, depths))>>,
     <<"C17.def.min_ctc_per_feature", DefScalar("Min constraints per feature", LAMBDA x : x = 100 * MinOf(SetOf(cpf)))>>,
     <<"C17.def.max_ctc_per_feature", DefScalar("Max constraints per feature", LAMBDA x : x = 100 * MaxOf(SetOf(cpf)))>>,
     <<"C17.def.avg_ctc_per_feature", DefScalar("Avg constraints per feature", LAMBDA x : AvgOK(x, SumSeq(cpf), nF))>>,
     \* --- ratios: size / size of the listing each metric is a share of
     <<"C17.ratio.features",  /\ NoRatio("Features") /\ NoRatio("Tree relationships") /\ NoRatio("Cross-tree constraints")>>,
     <<"C17.ratio.of_features",
          /\ Base("Abstract features", nF, 4) /\ Base("Concrete features", nF, 4) /\ Base("Leaf features", nF, 4)
          /\ Base("Compound features", nF, 4) /\ Base("Root feature", nF, 4) /\ Base("Top features", nF, 4)
          /\ Base("Solitary features", nF, 4) /\ Base("Grouped features", nF, 4)
          /\ Base("Features in constraints", nF, 2)>>,
     <<"C17.ratio.of_concrete", Base("Concrete compound features", Len(conc), 4) /\ Base("Concrete leaf features", Len(conc), 4)>>,
     <<"C17.ratio.of_abstract", Base("Abstract compound features", Len(abs), 4) /\ Base("Abstract leaf features", Len(abs), 4)>>,
     <<"C17.ratio.of_solitary", Base("Mandatory features", Len(sol), 4) /\ Base("Optional features", Len(sol), 4)>>,
     <<"C17.ratio.of_relationships", Base("Feature groups", Len(m.rels), 4)>>,
     <<"C17.ratio.of_groups", /\ Base("Alternative groups", Len(fgrp), 4) /\ Base("Or groups", Len(fgrp), 4)
                              /\ Base("Mutex groups", Len(fgrp), 4) /\ Base("Cardinality groups", Len(fgrp), 4)>>,
     <<"C17.ratio.of_constraints", Base("Simple constraints", Len(m.ctcs), 4) /\ Base("Complex constraints", Len(m.ctcs), 4)>>,
     <<"C17.ratio.of_simple",  Base("Requires constraints", Len(simple), 4) /\ Base("Excludes constraints", Len(simple), 4)>>,
     <<"C17.ratio.of_complex", Base("Pseudo-complex constraints", Len(complex), 4) /\ Base("Strict-complex constraints", Len(complex), 4)>>,
     \* --- the splitting identities, on the IMPLEMENTATION's listings
     <<"C17.ident.abstract_concrete", Splits("Abstract features", "Concrete features", NameSeq(m))>>,
     <<"C17.ident.leaf_compound",     Splits("Leaf features", "Compound features", NameSeq(m))>>,
     <<"C17.ident.solitary_grouped",  Splits("Solitary features", "Grouped features", Sel(m, LAMBDA f : f # m.root))>>,
     <<"C17.ident.mandatory_optional", /\ Inside("Mandatory features", L("Solitary features")) \/ ~Has("Solitary features")
                                       /\ Inside("Optional features", L("Solitary features")) \/ ~Has("Solitary features")
                                       /\ Both("Mandatory features", "Optional features") =>
                                             SetOf(L("Mandatory features")) \cap SetOf(L("Optional features")) = {}>>,
     <<"C17.ident.requires_excludes", Splits("Requires constraints", "Excludes constraints", L("Simple constraints")) \/ ~Has("Simple constraints")>>,
     <<"C17.ident.simple_complex",    Splits("Simple constraints", "Complex constraints", logical)>>,
     <<"C17.ident.pseudo_strict",     /\ Inside("Pseudo-complex constraints", L("Complex constraints")) \/ ~Has("Complex constraints")
                                      /\ Inside("Strict-complex constraints", L("Complex constraints")) \/ ~Has("Complex constraints")>>,
     \* --- agreement with the stand-alone operations
     <<"C17.agree.abf",   Has("Branching factor") /\ R.agree.abf.out = "value" => M("Branching factor").x100 = R.agree.abf.n>>,
     <<"C17.agree.depth", /\ Has("Depth of tree") /\ R.agree.depth.out = "value" => M("Depth of tree").x100 = 100 * R.agree.depth.n
                          /\ Has("Max depth of tree") /\ R.agree.depth.out = "value" => M("Max depth of tree").x100 = 100 * R.agree.depth.n>>,
     <<"C17.agree.leaves", Has("Leaf features") /\ R.agree.leaves.out = "value" =>
                             (SameBag(M("Leaf features").names, R.agree.leaves.names) /\ M("Leaf features").len = R.agree.count_leaves.n)>> >>
=============================================================================
