-------------------------------- MODULE FMEq --------------------------------
(***************************************************************************)
(* The equality / hashing contract (C20) and the single-point edits and    *)
(* order permutations it is exercised with.                                *)
(***************************************************************************)
EXTENDS FMSem

RelKey(r)  == <<r.owner, Kids(r), r.lo, r.hi>>
RelSet(m)  == {RelKey(m.rels[j]) : j \in DOMAIN m.rels}
CtcAsts(m) == [i \in DOMAIN m.ctcs |-> m.ctcs[i].ast]

\* equality of models as the property states it: order of children, of relations
\* and of constraints is irrelevant; constraint names take no part
SpecEq(a, b) == /\ a.root = b.root
                /\ Names(a) = Names(b)
                /\ RelSet(a) = RelSet(b) /\ Len(a.rels) = Len(b.rels)
                /\ SameBag(CtcAsts(a), CtcAsts(b))
RelEq(r, s) == RelKey(r) = RelKey(s)

---------------------------------------------------------------------------
(* Single-point edits *)
Fresh == "fz"
Rn(x, old, new) == IF x = old THEN new ELSE x
Rename(m, old, new) ==
  [root  |-> Rn(m.root, old, new),
   feats |-> [i \in DOMAIN m.feats |-> [m.feats[i] EXCEPT !.name = Rn(@, old, new), !.par = Rn(@, old, new)]],
   rels  |-> [j \in DOMAIN m.rels |-> [owner |-> Rn(m.rels[j].owner, old, new), pp |-> Rn(m.rels[j].pp, old, new),
                                       kids |-> [k \in DOMAIN m.rels[j].kids |-> Rn(m.rels[j].kids[k], old, new)],
                                       lo |-> m.rels[j].lo, hi |-> m.rels[j].hi]],
   ctcs  |-> m.ctcs]
SetCard(m, j, lo, hi) == [m EXCEPT !.rels[j].lo = lo, !.rels[j].hi = hi]
\* take child x out of relation j (which keeps at least one child) into a relation of its own
Min2(a, b) == IF a < b THEN a ELSE b
SplitOut(m, j, x) ==
  LET r  == m.rels[j]
      ks == SelectSeq(r.kids, LAMBDA k : k # x)
      hi == Min2(r.hi, Len(ks))
      lo == Min2(r.lo, hi)
  IN  [m EXCEPT !.rels = Append([@ EXCEPT ![j] = [r EXCEPT !.kids = ks, !.lo = lo, !.hi = hi]],
                                Rel(r.owner, <<x>>, 1, 1))]
RECURSIVE Subtree(_, _)
Subtree(m, f) == {f} \cup UNION {Subtree(m, c) : c \in ChildSet(m, f)}
\* move relation j (with its children) under another owner
ReOwn(m, j, o) ==
  [m EXCEPT !.rels[j].owner = o, !.rels[j].pp = o,
            !.feats = [i \in DOMAIN @ |-> IF @[i].name \in Kids(m.rels[j]) THEN [@[i] EXCEPT !.par = o] ELSE @[i]]]
\* move child x of relation j (which keeps at least one child) into relation j2
MoveKid(m, j, x, j2) ==
  LET r  == m.rels[j]
      ks == SelectSeq(r.kids, LAMBDA k : k # x)
      hi == IF r.hi = Star THEN Star ELSE Min2(r.hi, Len(ks))
      lo == IF hi = Star THEN Min2(r.lo, Len(ks)) ELSE Min2(r.lo, hi)
  IN  [m EXCEPT !.rels[j]  = [r EXCEPT !.kids = ks, !.lo = lo, !.hi = hi],
                !.rels[j2].kids = Append(@, x),
                !.feats = [i \in DOMAIN @ |-> IF @[i].name = x THEN [@[i] EXCEPT !.par = m.rels[j2].owner] ELSE @[i]]]
CtcOp(m, c, o)  == [m EXCEPT !.ctcs[c].ast.op = o]
RECURSIVE ReplLeftVar(_, _)
ReplLeftVar(t, v) == IF t.op = "VAR" THEN [t EXCEPT !.v = v]
                     ELSE IF t.op \in LeafOps \/ t.op = "NIL" THEN t
                     ELSE [t EXCEPT !.l = ReplLeftVar(t.l, v)]
RECURSIVE LeftVar(_)
LeftVar(t) == IF t.op = "VAR" THEN t.v ELSE IF t.op \in LeafOps \/ t.op = "NIL" THEN "" ELSE LeftVar(t.l)
CtcVar(m, c, v) == [m EXCEPT !.ctcs[c].ast = ReplLeftVar(@, v)]

Edits(m) ==
  {[k |-> "rename", i |-> i, j |-> 0, x |-> "", lo |-> 0, hi |-> 0] : i \in DOMAIN m.feats}
  \cup UNION {{[k |-> "card", i |-> 0, j |-> j, x |-> "", lo |-> c[1], hi |-> c[2]] :
                  c \in {c \in (0..4) \X (1..4) : c[1] <= c[2] /\ c[2] <= NKids(m.rels[j])
                                              /\ <<c[1], c[2]>> # <<m.rels[j].lo, m.rels[j].hi>>}} :
               j \in DOMAIN m.rels}
  \cup {[k |-> "splitout", i |-> 0, j |-> j, x |-> x, lo |-> 0, hi |-> 0] :
          j \in {j \in DOMAIN m.rels : NKids(m.rels[j]) >= 2}, x \in Names(m)} 
  \cup {[k |-> "movekid", i |-> 0, j |-> j, x |-> x, lo |-> j2, hi |-> 0] :
          j \in {j \in DOMAIN m.rels : NKids(m.rels[j]) >= 2}, x \in Names(m), j2 \in DOMAIN m.rels}
  \cup {[k |-> "reown", i |-> 0, j |-> j, x |-> o, lo |-> 0, hi |-> 0] :
          j \in DOMAIN m.rels, o \in Names(m)}
  \cup {[k |-> "ctcop", i |-> c, j |-> 0, x |-> o, lo |-> 0, hi |-> 0] :
          c \in DOMAIN m.ctcs, o \in LogicBin}
  \cup {[k |-> "ctcvar", i |-> c, j |-> 0, x |-> v, lo |-> 0, hi |-> 0] :
          c \in DOMAIN m.ctcs, v \in Names(m)}
EditOK(m, e) ==
  CASE e.k = "splitout" -> e.x \in Kids(m.rels[e.j])
    [] e.k = "movekid"  -> e.x \in Kids(m.rels[e.j]) /\ e.lo # e.j /\ m.rels[e.lo].owner \notin Subtree(m, e.x)
    [] e.k = "reown"    -> e.x # m.rels[e.j].owner
                           /\ e.x \notin UNION {Subtree(m, c) : c \in Kids(m.rels[e.j])}
    [] e.k = "ctcop"    -> m.ctcs[e.i].ast.op \in LogicBin /\ e.x # m.ctcs[e.i].ast.op
    [] e.k = "ctcvar"   -> LeftVar(m.ctcs[e.i].ast) # "" /\ e.x # LeftVar(m.ctcs[e.i].ast)
    [] OTHER -> TRUE
ApplyEdit(m, e) ==
  CASE e.k = "rename"   -> Rename(m, m.feats[e.i].name, Fresh)
    [] e.k = "card"     -> SetCard(m, e.j, e.lo, e.hi)
    [] e.k = "splitout" -> SplitOut(m, e.j, e.x)
    [] e.k = "movekid"  -> MoveKid(m, e.j, e.x, e.lo)
    [] e.k = "reown"    -> ReOwn(m, e.j, e.x)
    [] e.k = "ctcop"    -> CtcOp(m, e.i, e.x)
    [] e.k = "ctcvar"   -> CtcVar(m, e.i, e.x)
=============================================================================
