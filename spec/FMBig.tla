------------------------------- MODULE FMBig -------------------------------
(***************************************************************************)
(* Exact configuration counts beyond TLC's 32-bit integers (C13): natural  *)
(* numbers as little-endian sequences of decimal digits, with addition and *)
(* multiplication, binomial coefficients by Pascal's rule, and the count   *)
(* of a model whose root owns relations over LEAF children only:           *)
(*      product over the relations of  sum_{k = lo..hi} C(n, k)            *)
(* (a single mandatory child counts 1, a single optional child 2 - the     *)
(* same formula).  Lemma LBig: on small arguments the big-number count     *)
(* equals the integer one.                                                 *)
(***************************************************************************)
EXTENDS Integers, Sequences, TLC

RECURSIVE Big(_)
Big(n) == IF n < 10 THEN <<n>> ELSE <<n % 10>> \o Big(n \div 10)
Dig(a, i) == IF i <= Len(a) THEN a[i] ELSE 0
MaxI(x, y) == IF x > y THEN x ELSE y

RECURSIVE AddFrom(_, _, _, _)
AddFrom(a, b, i, carry) ==
  IF i > MaxI(Len(a), Len(b)) THEN (IF carry = 0 THEN <<>> ELSE <<carry>>)
  ELSE LET s == Dig(a, i) + Dig(b, i) + carry
       IN  <<s % 10>> \o AddFrom(a, b, i + 1, s \div 10)
BigAdd(a, b) == AddFrom(a, b, 1, 0)

RECURSIVE MulDigitFrom(_, _, _, _)
MulDigitFrom(a, d, i, carry) ==
  IF i > Len(a) THEN (IF carry = 0 THEN <<>> ELSE Big(carry))
  ELSE LET s == a[i] * d + carry
       IN  <<s % 10>> \o MulDigitFrom(a, d, i + 1, s \div 10)
RECURSIVE Trim(_)
Trim(x) == IF Len(x) > 1 /\ x[Len(x)] = 0 THEN Trim(SubSeq(x, 1, Len(x) - 1)) ELSE x
MulDigit(a, d) == IF d = 0 THEN <<0>> ELSE MulDigitFrom(a, d, 1, 0)
RECURSIVE MulFrom(_, _, _)
MulFrom(a, b, i) ==          \* a * (b[i..]) where b[i] is the units digit of the remaining factor
  IF i > Len(b) THEN <<0>>
  ELSE BigAdd(MulDigit(a, b[i]), <<0>> \o MulFrom(a, b, i + 1))
BigMul(a, b) == Trim(MulFrom(a, b, 1))

RECURSIVE BigStrFrom(_, _)
BigStrFrom(a, i) == IF i = 0 THEN "" ELSE ToString(a[i]) \o BigStrFrom(a, i - 1)
BigStr(a) == LET t == Trim(a) IN BigStrFrom(t, Len(t))

\* Pascal's rule: row n of the triangle as a sequence of n+1 big numbers (index k+1 holds C(n, k)).  Rows are built
\* with Append, i.e. as explicit tuples, and handed on as arguments: a function constructor [k \in .. |-> ..] stays a
\* lazy lambda in TLC (and a LET definition is re-evaluated at every use), so a row defined that way would recompute
\* the row before it at every application - exponential in n
RECURSIVE RowBuild(_, _, _)
RowBuild(p, k, acc) == IF k > Len(p) THEN Append(acc, <<1>>) ELSE RowBuild(p, k + 1, Append(acc, BigAdd(p[k - 1], p[k])))
NextRow(p) == RowBuild(p, 2, << <<1>> >>)
RECURSIVE RowFrom(_, _)
RowFrom(p, n) == IF Len(p) = n + 1 THEN p ELSE RowFrom(NextRow(p), n)
PascalRow(n) == RowFrom(<< <<1>> >>, n)

RECURSIVE SumRow(_, _, _)
SumRow(row, lo, hi) == IF lo > hi THEN <<0>> ELSE BigAdd(row[lo + 1], SumRow(row, lo + 1, hi))
\* number of ways to choose between lo and hi of n leaves (hi = -1: no upper bound)
GroupCount(n, lo, hi) == SumRow(PascalRow(n), lo, IF hi = -1 \/ hi > n THEN n ELSE hi)

RECURSIVE ProductOf(_, _)
ProductOf(groups, i) == IF i > Len(groups) THEN <<1>>
                        ELSE BigMul(GroupCount(groups[i].n, groups[i].lo, groups[i].hi), ProductOf(groups, i + 1))
\* groups: Seq([n, lo, hi]) - the relations of the root, each over n leaf children
WideCount(groups) == BigStr(ProductOf(groups, 1))

---------------------------------------------------------------------------
\* LBig: the big-number arithmetic agrees with TLC's integers where those suffice
RECURSIVE IntOf(_, _)
IntOf(a, i) == IF i > Len(a) THEN 0 ELSE a[i] + 10 * IntOf(a, i + 1)
RECURSIVE Choose(_, _)
Choose(n, k) == IF k = 0 \/ k = n THEN 1 ELSE Choose(n - 1, k - 1) + Choose(n - 1, k)
LBig == /\ \A x \in 0..40, y \in 0..40 : /\ IntOf(BigAdd(Big(x * 37), Big(y * 911)), 1) = x * 37 + y * 911
                                          /\ IntOf(BigMul(Big(x * 37), Big(y * 911)), 1) = x * 37 * y * 911
        /\ \A n \in 0..12 : \A k \in 0..n : IntOf(PascalRow(n)[k + 1], 1) = Choose(n, k)
        /\ BigStr(Big(1234567)) = "1234567" /\ BigStr(BigMul(Big(99999), Big(99999))) = "9999800001"
        /\ WideCount(<< [n |-> 3, lo |-> 1, hi |-> 3], [n |-> 1, lo |-> 0, hi |-> 1] >>) = "14"
        /\ WideCount(<< [n |-> 40, lo |-> 1, hi |-> 40] >>) = "1099511627775"
=============================================================================
