------------------------------ MODULE FMBase ------------------------------
(***************************************************************************)
(* Values of the feature-model metamodel and the structural vocabulary     *)
(* every other module uses.  A model is the RAW projection of the Python   *)
(* object graph (DESIGN 4.1): back pointers are separate fields, so an     *)
(* ill-formed graph is representable and WellFormed is a real predicate.   *)
(*                                                                         *)
(*   model = [root, feats : Seq(feature), rels : Seq(relation),            *)
(*            ctcs : Seq([name, ast])]                                     *)
(*   feature  = [name, par, abs, ftype, fclo, fchi, attrs : Seq(attr)]     *)
(*   relation = [owner, pp, kids : Seq(name), lo, hi]                      *)
(*   attr     = [name, val, owner, dom, nul]      (val/dom/nul are tokens) *)
(*                                                                         *)
(* owner = the feature whose .relations list holds the relation,           *)
(* pp    = Relation.parent, par = Feature.parent ("" for None).            *)
(***************************************************************************)
EXTENDS Integers, Sequences, FiniteSets, TLC, SequencesExt, FiniteSetsExt

Star == -1          \* card_max of a UVL [a..*] group
None == ""          \* absent name

SetOf(s)    == {s[i] : i \in DOMAIN s}
CountIn(s, x) == Cardinality({i \in DOMAIN s : s[i] = x})
NoDup(s)    == \A i, j \in DOMAIN s : s[i] = s[j] => i = j
SameBag(s, t) == /\ Len(s) = Len(t)
                 /\ \A x \in SetOf(s) \cup SetOf(t) : CountIn(s, x) = CountIn(t, x)
Concat(ss)  == FoldLeft(LAMBDA acc, s : acc \o s, <<>>, ss)
SumSeq(s)   == FoldLeft(LAMBDA acc, x : acc + x, 0, s)
MaxOf(S)    == CHOOSE x \in S : \A y \in S : y <= x
MinOf(S)    == CHOOSE x \in S : \A y \in S : x <= y

---------------------------------------------------------------------------
(* Constructors: exactly what the public constructors of the library build *)

Feat(n, p) == [name |-> n, par |-> p, abs |-> FALSE, ftype |-> "Boolean",
               fclo |-> 1, fchi |-> 1, attrs |-> <<>>]
Rel(o, kids, lo, hi) == [owner |-> o, pp |-> o, kids |-> kids, lo |-> lo, hi |-> hi]
Attr(n, v, o, d, z)  == [name |-> n, val |-> v, owner |-> o, dom |-> d, nul |-> z]

NewModelF(r) == [root |-> r, feats |-> <<Feat(r, None)>>, rels |-> <<>>, ctcs |-> <<>>]

\* FeatureModel.root.add_relation(Relation(o, [Feature(k) for k in kids], lo, hi))
AddRelationF(m, o, kids, lo, hi) ==
  [m EXCEPT !.feats = @ \o [i \in 1..Len(kids) |-> Feat(kids[i], o)],
            !.rels  = Append(@, Rel(o, kids, lo, hi))]

FeatIdx(m, f) == CHOOSE i \in DOMAIN m.feats : m.feats[i].name = f
SetAbstractF(m, f)      == [m EXCEPT !.feats[FeatIdx(m, f)].abs = TRUE]
SetTypeF(m, f, t)       == [m EXCEPT !.feats[FeatIdx(m, f)].ftype = t]
SetFCardF(m, f, lo, hi) == [m EXCEPT !.feats[FeatIdx(m, f)].fclo = lo,
                                     !.feats[FeatIdx(m, f)].fchi = hi]
AddAttributeF(m, f, n, v, d, z) ==
  [m EXCEPT !.feats[FeatIdx(m, f)].attrs = Append(@, Attr(n, v, f, d, z))]
AddConstraintF(m, n, ast) == [m EXCEPT !.ctcs = Append(@, [name |-> n, ast |-> ast])]

---------------------------------------------------------------------------
(* In-place edits of a built model through public attributes and methods   *)
(* (the library has no dedicated mutators beyond add_child): what each     *)
(* assignment does to the abstract state.                                  *)

\* a relation is addressed as (owner, position among the owner's relations)
RelPos(m, j)     == Cardinality({i \in 1..j : m.rels[i].owner = m.rels[j].owner})
RelIdx(m, o, ri) == CHOOSE j \in DOMAIN m.rels : m.rels[j].owner = o /\ RelPos(m, j) = ri
HasRel(m, o, ri) == \E j \in DOMAIN m.rels : m.rels[j].owner = o /\ RelPos(m, j) = ri
\* rel.card_min, rel.card_max = lo, hi
SetCardF(m, j, lo, hi) == [m EXCEPT !.rels[j].lo = lo, !.rels[j].hi = hi]
\* rel.add_child(Feature(n, parent=owner))
AddChildF(m, j, n) == [m EXCEPT !.feats = Append(@, Feat(n, m.rels[j].owner)),
                                !.rels[j].kids = Append(@, n)]
\* rel.children.remove(child)   (child is a leaf; the relation keeps at least one child)
RemoveKidF(m, j, k) ==
  LET n == m.rels[j].kids[k]
  IN  [m EXCEPT !.feats = SelectSeq(@, LAMBDA f : f.name # n),
                !.rels[j].kids = SelectSeq(@, LAMBDA x : x # n)]
\* rel.children[k] = Feature(same name, parent=owner)   (a new object under the old name; the old child is a leaf)
ReplaceKidF(m, j, k) == LET n == m.rels[j].kids[k]
                        IN  [m EXCEPT !.feats[FeatIdx(m, n)] = Feat(n, m.rels[j].owner)]
\* rel1.children.remove(f); rel2.add_child(f); f.parent = rel2.parent   (f moves with its subtree)
MoveKidF(m, j1, k, j2) ==
  LET n == m.rels[j1].kids[k]
  IN  [m EXCEPT !.rels[j1].kids = SelectSeq(@, LAMBDA x : x # n),
                !.rels[j2].kids = Append(@, n),
                !.feats[FeatIdx(m, n)].par = m.rels[j2].owner]
\* old.relations.remove(rel); rel.parent = new; new.add_relation(rel)   (a relation moves, with its children, under another owner)
ReOwnF(m, j, o) ==
  LET r == [m.rels[j] EXCEPT !.owner = o, !.pp = o]
  IN  [m EXCEPT !.rels  = Append(SubSeq(@, 1, j - 1) \o SubSeq(@, j + 1, Len(@)), r),
                !.feats = [i \in DOMAIN @ |-> IF @[i].name \in SetOf(m.rels[j].kids) THEN [@[i] EXCEPT !.par = o] ELSE @[i]]]
\* model.import_model(sub_root, parent, ctcs): the constraints not yet in the model are appended, in order
\* (the library compares constraints by the text of their trees)
RECURSIVE ImportCtcs(_, _)
ImportCtcs(ctcs, new) ==
  IF new = <<>> THEN ctcs
  ELSE LET c == Head(new)
       IN  ImportCtcs(IF \E i \in DOMAIN ctcs : ctcs[i].ast = c.ast THEN ctcs ELSE Append(ctcs, c), Tail(new))
ImportF(m, new) == [m EXCEPT !.ctcs = ImportCtcs(@, new)]
\* feature.is_abstract = not feature.is_abstract
ToggleAbstractF(m, f) == [m EXCEPT !.feats[FeatIdx(m, f)].abs = ~@]
\* attribute.set_default_value(v)
SetAttrValF(m, f, k, v) == [m EXCEPT !.feats[FeatIdx(m, f)].attrs[k].val = v]
\* attribute.set_name(n)
SetAttrNameF(m, f, k, n) == [m EXCEPT !.feats[FeatIdx(m, f)].attrs[k].name = n]
\* feature.set_attributes([all but the k-th])
RemoveAttrF(m, f, k) == [m EXCEPT !.feats[FeatIdx(m, f)].attrs = SubSeq(@, 1, k - 1) \o SubSeq(@, k + 1, Len(@))]
\* model.ctcs.pop(i)
RemoveCtcF(m, i) == [m EXCEPT !.ctcs = SubSeq(@, 1, i - 1) \o SubSeq(@, i + 1, Len(@))]
\* ctc.ast.root.data = op
SetCtcOpF(m, i, op) == [m EXCEPT !.ctcs[i].ast.op = op]
\* feature.name = new   (one assignment: every reference to the object sees it)
RnF(x, old, new) == IF x = old THEN new ELSE x
RenameF(m, old, new) ==
  [root  |-> RnF(m.root, old, new),
   feats |-> [i \in DOMAIN m.feats |->
                [m.feats[i] EXCEPT !.name = RnF(@, old, new), !.par = RnF(@, old, new),
                                   !.attrs = [k \in DOMAIN @ |-> [@[k] EXCEPT !.owner = RnF(@, old, new)]]]],
   rels  |-> [j \in DOMAIN m.rels |->
                [m.rels[j] EXCEPT !.owner = RnF(@, old, new), !.pp = RnF(@, old, new),
                                  !.kids = [k \in DOMAIN @ |-> RnF(@[k], old, new)]]],
   ctcs  |-> m.ctcs]

---------------------------------------------------------------------------
(* Structure *)

Names(m)     == {m.feats[i].name : i \in DOMAIN m.feats}
NameSeq(m)   == [i \in DOMAIN m.feats |-> m.feats[i].name]
FeatOf(m, f) == m.feats[FeatIdx(m, f)]
RelsOf(m, f) == SelectSeq(m.rels, LAMBDA r : r.owner = f)
Kids(r)      == SetOf(r.kids)
NKids(r)     == Len(r.kids)
ChildSeq(m, f) == Concat([i \in DOMAIN RelsOf(m, f) |-> RelsOf(m, f)[i].kids])
ChildSet(m, f) == SetOf(ChildSeq(m, f))
IsLeaf(m, f)   == RelsOf(m, f) = <<>>
LeafSet(m)     == {f \in Names(m) : IsLeaf(m, f)}
\* the relation that contains f as a child (well-formed models: exactly one for non-root)
HoldersOf(m, f) == {i \in DOMAIN m.rels : f \in Kids(m.rels[i])}
HolderOf(m, f)  == m.rels[CHOOSE i \in HoldersOf(m, f) : TRUE]
\* parent as the TREE gives it (not the back pointer)
TreeParent(m, f) == IF HoldersOf(m, f) = {} THEN None ELSE HolderOf(m, f).owner

RECURSIVE AncSeq(_, _)
AncSeq(m, f) == LET p == TreeParent(m, f)
                IN  IF p = None THEN <<>> ELSE <<p>> \o AncSeq(m, p)
DepthOf(m, f) == Len(AncSeq(m, f))
MaxDepth(m)   == MaxOf({DepthOf(m, f) : f \in LeafSet(m)})

RECURSIVE Preorder(_, _)
Preorder(m, f) == <<f>> \o Concat([i \in DOMAIN ChildSeq(m, f) |-> Preorder(m, ChildSeq(m, f)[i])])

EffHi(r) == IF r.hi = Star THEN NKids(r) ELSE r.hi

---------------------------------------------------------------------------
(* Relation classes (C03).  Determined by the number of children and the   *)
(* cardinality alone; total and single-valued (lemma L1, proved for all    *)
(* naturals in FMKind_proofs.tla).  A [lo..*] relation is a cardinality    *)
(* relation by definition: its written bound is not the child count.       *)

Kind(n, lo, hi) ==
  IF n = 1 THEN IF lo = 1 /\ hi = 1 THEN "mandatory"
                ELSE IF lo = 0 /\ hi = 1 THEN "optional" ELSE "cardinality"
  ELSE IF lo = 1 /\ hi = 1 THEN "alternative"
  ELSE IF lo = 1 /\ hi = n THEN "or"
  ELSE IF lo = 0 /\ hi = 1 THEN "mutex" ELSE "cardinality"
KindOf(r) == Kind(NKids(r), r.lo, r.hi)
Kinds == {"mandatory", "optional", "alternative", "or", "mutex", "cardinality"}
IsGroupRel(r) == NKids(r) > 1
HolderKind(m, f) == IF HoldersOf(m, f) = {} THEN "none" ELSE KindOf(HolderOf(m, f))
HasRelKind(m, f, k) == \E i \in DOMAIN RelsOf(m, f) : KindOf(RelsOf(m, f)[i]) = k
NGroupRels(m, f) == Cardinality({i \in DOMAIN RelsOf(m, f) : IsGroupRel(RelsOf(m, f)[i])})

---------------------------------------------------------------------------
(* Well-formedness (C02): the graph is a proper tree with consistent back  *)
(* pointers.  Each conjunct is a named clause in the trace specification.  *)

WfRoot(m)   == /\ m.root \in Names(m)
               /\ \A i \in DOMAIN m.feats : (m.feats[i].par = None) <=> (m.feats[i].name = m.root)
WfUnique(m) == NoDup(NameSeq(m))
WfChildParent(m) ==
  \A i \in DOMAIN m.feats :
     LET f == m.feats[i] IN
     f.name # m.root =>
       /\ SumSeq([j \in DOMAIN m.rels |-> CountIn(m.rels[j].kids, f.name)]) = 1
       /\ f.par = TreeParent(m, f.name)
WfRootNoHolder(m) == HoldersOf(m, m.root) = {}
WfRelParent(m) == \A j \in DOMAIN m.rels : m.rels[j].pp = m.rels[j].owner /\ m.rels[j].owner \in Names(m)
WfNonEmpty(m)  == \A j \in DOMAIN m.rels : NKids(m.rels[j]) >= 1
WfKidsKnown(m) == \A j \in DOMAIN m.rels : Kids(m.rels[j]) \subseteq Names(m)
WfAttrOwner(m) == \A i \in DOMAIN m.feats : \A k \in DOMAIN m.feats[i].attrs :
                     m.feats[i].attrs[k].owner = m.feats[i].name
WfCards(m)  == \A j \in DOMAIN m.rels :
                  LET r == m.rels[j] IN 0 <= r.lo /\ (r.hi = Star \/ (r.lo <= r.hi /\ r.hi <= NKids(r)))

\* third-party documents may carry an upper bound above the number of children (FaMa <cardinality max="3"> over one child)
WfCardsOver(m) == \A j \in DOMAIN m.rels :
                     LET r == m.rels[j] IN 0 <= r.lo /\ (r.hi = Star \/ r.lo <= r.hi)

WellFormedTree(m) == /\ WfRoot(m) /\ WfUnique(m) /\ WfChildParent(m) /\ WfRootNoHolder(m)
                     /\ WfRelParent(m) /\ WfNonEmpty(m) /\ WfKidsKnown(m) /\ WfAttrOwner(m)

---------------------------------------------------------------------------
(* Model comparison used by the builder binding: same content; the order   *)
(* of features in the projection is a property of the walk, the order of   *)
(* relations per owner and of children per relation is kept.               *)

SameTree(a, b) ==
  /\ a.root = b.root
  /\ SameBag(a.feats, b.feats)
  /\ Len(a.rels) = Len(b.rels)
  /\ \A f \in Names(a) \cup Names(b) : RelsOf(a, f) = RelsOf(b, f)
SameModel(a, b) == SameTree(a, b) /\ a.ctcs = b.ctcs
=============================================================================
