------------------------------- MODULE FMOps -------------------------------
(***************************************************************************)
(* Result relations of the analysis operations (C13-C16): what each        *)
(* operation must return, stated on the model alone.  R is the projected   *)
(* result record [n, names, sets, keys, vals, bad, big].                   *)
(***************************************************************************)
EXTENDS FMSem

\* number of children / number of non-leaf features; value logged x100
NBranches(m) == Cardinality({f \in Names(m) : ~IsLeaf(m, f)})
NChildren(m) == SumSeq([j \in DOMAIN m.rels |-> NKids(m.rels[j])])
Abs(x) == IF x < 0 THEN -x ELSE x
\* any correct rounding of nc/nb to two decimals (half-unit tolerance)
RatioOK(x100, nc, nb) == Abs(x100 * nb - 100 * nc) * 2 <= nb

\* features with a non-mandatory relation, and the children of all such relations
NonMandRels(m, f) == SelectSeq(RelsOf(m, f), LAMBDA r : KindOf(r) # "mandatory")
VarPointSet(m) == {f \in Names(m) : NonMandRels(m, f) # <<>>}
Variants(m, f) == Concat([i \in DOMAIN NonMandRels(m, f) |-> NonMandRels(m, f)[i].kids])

OpValueClauses(m, op, f, R) ==
  CASE op = "estimate" ->
         << <<"C13.exact", R.big = "" /\ EstExact(m, R.n)>>,
            <<"C13.upper", R.big # "" \/ EstUpper(m, R.n)>> >>
    [] op = "core" ->
         << <<"C14.once",     CoreOnce(R.names)>>,
            <<"C14.root",     CoreRoot(m, R.names)>>,
            <<"C14.sound",    CoreSound(m, R.names)>>,
            <<"C14.complete", CoreComplete(m, R.names)>> >>
    [] op = "atomic" ->
         << <<"C15.partition",  AtomicPartition(m, R.sets)>>,
            <<"C15.coselected", AtomicCoSelected(m, R.sets)>>,
            <<"C15.mandchain",  AtomicMandChain(m, R.sets)>> >>
    [] op = "leaves" ->
         << <<"C16.leaves.value", NoDup(R.names) /\ SetOf(R.names) = LeafSet(m)>> >>
    [] op = "count_leaves" ->
         << <<"C16.count_leaves.value", R.n = Cardinality(LeafSet(m))>> >>
    [] op = "depth" ->
         << <<"C16.depth.value", R.n = MaxDepth(m)>> >>
    [] op = "abf" ->
         << <<"C16.abf.value", NBranches(m) = 0 \/ RatioOK(R.n, NChildren(m), NBranches(m))>> >>
    [] op = "ancestors" ->
         << <<"C16.ancestors.value", f \in Names(m) /\ R.names = AncSeq(m, f)>> >>
    [] op = "varpoints" ->
         << <<"C16.varpoints.keys", NoDup(R.keys) /\ SetOf(R.keys) = VarPointSet(m)>>,
            <<"C16.varpoints.value", /\ Len(R.keys) = Len(R.vals)
                                     /\ \A i \in DOMAIN R.keys :
                                          R.keys[i] \in Names(m) => SameBag(R.vals[i], Variants(m, R.keys[i]))>> >>
    [] OTHER -> <<>>

PropOfOp(op) == CASE op = "estimate" -> "C13" [] op = "core" -> "C14" [] op = "atomic" -> "C15"
                  [] op = "metrics" -> "C17" [] OTHER -> "C16"
=============================================================================
