------------------------------ MODULE FMTrace ------------------------------
(***************************************************************************)
(* Binding 2 (code -> spec): every event recorded from the real library is *)
(* judged against the specification (DESIGN 6).                            *)
(*                                                                         *)
(* One line of the trace file = one trace [id, ev : Seq(event)]; one       *)
(* initial state per trace.  The verdict of a step is TOTAL: every clause  *)
(* of the action's relation is evaluated, the names of all failing ones    *)
(* are printed, and the behaviour continues from the logged state, so one  *)
(* defect never hides the rest of a trace.  Acceptance is by               *)
(* POSTCONDITION (all events of all traces were consumed).                 *)
(***************************************************************************)
EXTENDS FMClauses, Json, IOUtils

Traces == ndJsonDeserialize(IOEnv.TRACES)

VARIABLES tid, l, cur
tvars == <<tid, l, cur>>

TInit == /\ tid \in DOMAIN Traces
         /\ l = 0
         /\ cur = InitCur

TNext ==
  /\ l < Len(Traces[tid].ev)
  /\ LET e == Traces[tid].ev[l + 1]
         v == Failing(Clauses(cur, e))
     IN  /\ cur' = Advance(cur, e)
         /\ (v # <<>>) => PrintT(ToJson([id |-> Traces[tid].id, step |-> l + 1, a |-> e.a, fails |-> v]))
  /\ l' = l + 1
  /\ tid' = tid

TSpec == TInit /\ [][TNext]_tvars

TotalStates == FoldLeft(LAMBDA acc, t : acc + Len(t.ev) + 1, 0, Traces)
AllConsumed == /\ TLCGet("stats").distinct = TotalStates
               /\ PrintT(<<"CONSUMED", TotalStates, Len(Traces)>>)
=============================================================================
