----------------------------- MODULE FMClauses -----------------------------
(***************************************************************************)
(* The relation of every action of the API state machine, as named         *)
(* clauses:  Clauses(cur, e)  is a sequence of <<name, truth>> pairs for   *)
(* the step from abstract state `cur` by logged event `e`.  Clause names   *)
(* carry the property id.  Guards keep later clauses inside the domain of  *)
(* the operators they use, so a malformed value is a failed clause and     *)
(* never a TLC evaluation error.                                           *)
(***************************************************************************)
EXTENDS FMMetrics, FMEq, FMFormats, FMExports, FMBig

\* A clause is <<name, truth>> or <<name, truth, why>>: `why` names the deviation
\* (a known finding modelled in the specification) that explains a failure, or "".
Failing(cs) == SelectSeq([i \in DOMAIN cs |->
                            IF cs[i][2] THEN ""
                            ELSE IF Len(cs[i]) = 3 /\ cs[i][3] # "" THEN cs[i][1] \o "#" \o cs[i][3]
                            ELSE cs[i][1]],
                         LAMBDA n : n # "")
Why(label, explains) == IF explains THEN label ELSE ""
Guarded(g, cs) == IF g THEN cs ELSE <<>>

EmptyModel == [root |-> "", feats |-> <<>>, rels |-> <<>>, ctcs |-> <<>>]
InitCur == [model |-> EmptyModel, memo |-> <<>>, other |-> EmptyModel,
            m0 |-> EmptyModel, m1 |-> EmptyModel, gen |-> 0, wd |-> <<>>, wmemo |-> <<>>, fmt |-> "",
            pj |-> [out |-> "none", anom |-> <<>>, post |-> EmptyModel]]

EditActions == {"EditCard", "EditAddChild", "EditRemoveKid", "EditReplaceKid", "EditMove", "EditReown", "EditImport", "EditAbstract", "EditAttrVal", "EditAttrName", "EditRemoveAttr", "EditRemoveCtc",
                "EditCtcOp", "EditRename"}
BuilderActions == {"NewModel", "AddRelation", "SetAbstract", "SetType", "SetFCard",
                   "AddAttribute", "AddConstraint", "ReplaceConstraint"} \cup EditActions

---------------------------------------------------------------------------
(* Well-formedness clauses (C02), evaluated on any projected model *)
WfClauses(p, m) ==
  << <<p \o ".wf.root",        WfRoot(m) /\ WfRootNoHolder(m)>>,
     <<p \o ".wf.unique",      WfUnique(m)>>,
     <<p \o ".wf.childparent", WfKidsKnown(m) /\ WfChildParent(m)>>,
     <<p \o ".wf.relparent",   WfRelParent(m)>>,
     <<p \o ".wf.nonempty",    WfNonEmpty(m)>>,
     <<p \o ".wf.attrowner",   WfAttrOwner(m)>> >>
AstClauses(p, m) ==
  << <<p \o ".ast.shape", \A i \in DOMAIN m.ctcs : WellShaped(m.ctcs[i].ast)>> >>

---------------------------------------------------------------------------
(* Builder actions: the post-state is the specification's successor state *)
BuildExpected(cur, e) ==
  CASE e.a = "NewModel"      -> NewModelF(e.args.root)
    [] e.a = "AddRelation"   -> AddRelationF(cur.model, e.args.o, e.args.kids, e.args.lo, e.args.hi)
    [] e.a = "SetAbstract"   -> SetAbstractF(cur.model, e.args.f)
    [] e.a = "SetType"       -> SetTypeF(cur.model, e.args.f, e.args.t)
    [] e.a = "SetFCard"      -> SetFCardF(cur.model, e.args.f, e.args.lo, e.args.hi)
    [] e.a = "AddAttribute"  -> AddAttributeF(cur.model, e.args.f, e.args.n, e.args.val, e.args.dom, e.args.nul)
    [] e.a = "AddConstraint" -> AddConstraintF(cur.model, e.args.n, e.args.ast)
    [] e.a = "ReplaceConstraint" -> [cur.model EXCEPT !.ctcs[Len(cur.model.ctcs)].ast = e.args.ast]
    \* in-place edits through public attributes
    [] e.a = "EditCard"      -> SetCardF(cur.model, RelIdx(cur.model, e.args.o, e.args.ri), e.args.lo, e.args.hi)
    [] e.a = "EditAddChild"  -> AddChildF(cur.model, RelIdx(cur.model, e.args.o, e.args.ri), e.args.n)
    [] e.a = "EditRemoveKid" -> LET j == RelIdx(cur.model, e.args.o, e.args.ri)
                                    k == CHOOSE k \in DOMAIN cur.model.rels[j].kids : cur.model.rels[j].kids[k] = e.args.n
                                IN  RemoveKidF(cur.model, j, k)
    [] e.a = "EditReplaceKid" -> LET j == RelIdx(cur.model, e.args.o, e.args.ri)
                                     k == CHOOSE k \in DOMAIN cur.model.rels[j].kids : cur.model.rels[j].kids[k] = e.args.n
                                 IN  ReplaceKidF(cur.model, j, k)
    [] e.a = "EditMove"      -> LET j == RelIdx(cur.model, e.args.o, e.args.ri)
                                    k == CHOOSE k \in DOMAIN cur.model.rels[j].kids : cur.model.rels[j].kids[k] = e.args.n
                                IN  MoveKidF(cur.model, j, k, RelIdx(cur.model, e.args.o2, e.args.ri2))
    [] e.a = "EditReown"     -> ReOwnF(cur.model, RelIdx(cur.model, e.args.o, e.args.ri), e.args.o2)
    [] e.a = "EditImport"    -> ImportF(cur.model, e.args.ctcs)
    [] e.a = "EditAbstract"  -> ToggleAbstractF(cur.model, e.args.f)
    [] e.a = "EditAttrVal"   -> SetAttrValF(cur.model, e.args.f, e.args.k, e.args.val)
    [] e.a = "EditAttrName"  -> SetAttrNameF(cur.model, e.args.f, e.args.k, e.args.n)
    [] e.a = "EditRemoveAttr" -> RemoveAttrF(cur.model, e.args.f, e.args.k)
    [] e.a = "EditRemoveCtc" -> RemoveCtcF(cur.model, e.args.i)
    [] e.a = "EditCtcOp"     -> SetCtcOpF(cur.model, e.args.i, e.args.op)
    [] e.a = "EditRename"    -> RenameF(cur.model, e.args.f, e.args.n)
\* the arguments of an edit refer to things the current model has
EditArgsOK(cur, e) ==
  LET m == cur.model IN
  CASE e.a \in {"EditCard", "EditAddChild"} -> HasRel(m, e.args.o, e.args.ri)
    [] e.a \in {"EditRemoveKid", "EditReplaceKid"} ->
                                HasRel(m, e.args.o, e.args.ri) /\ e.args.n \in Kids(m.rels[RelIdx(m, e.args.o, e.args.ri)])
    [] e.a = "EditMove" -> /\ HasRel(m, e.args.o, e.args.ri) /\ HasRel(m, e.args.o2, e.args.ri2)
                           /\ e.args.n \in Kids(m.rels[RelIdx(m, e.args.o, e.args.ri)])
    [] e.a \in {"EditAbstract", "EditRename"} -> e.args.f \in Names(m)
    [] e.a \in {"EditAttrVal", "EditAttrName", "EditRemoveAttr"} -> e.args.f \in Names(m) /\ e.args.k \in DOMAIN FeatOf(m, e.args.f).attrs
    [] e.a \in {"EditRemoveCtc", "EditCtcOp"} -> e.args.i \in DOMAIN m.ctcs
    [] OTHER -> TRUE
BuildClauses(cur, e) ==
  << <<"C03.build.shape", e.anom = <<>> >>,
     <<"C03.build.total", e.out = "value">>,
     <<"C03.build.args",     EditArgsOK(cur, e)>> >>
  \o Guarded(EditArgsOK(cur, e), << <<"C03.build.step",  SameModel(e.post, BuildExpected(cur, e))>> >>)
  \o WfClauses("C03.build", e.post)

---------------------------------------------------------------------------
(* Load: the driver built args.model through the constructors without      *)
(* logging each step; the projection must be that model.                   *)
LoadClauses(cur, e) ==
  << <<"C03.build.shape", e.anom = <<>> >>,
     <<"C03.build.load",  SameModel(e.post, e.args.model)>> >>

---------------------------------------------------------------------------
(* Constraint-level queries (C18); c is the record logged by classify()   *)
ClassifyClauses(c) ==
  LET t == c.ast
      P == c.preds
      prop == WellShaped(t) /\ IsPropT(t)       \* purely propositional over names
  IN
  << <<"C18.total",  c.errors = <<>> >>,
     <<"C18.pure",   c.pure>>,
     <<"C18.kinds.logical",     WellShaped(t) => (P.logical = IsLogicalT(t))>>,
     <<"C18.kinds.arithmetic",  WellShaped(t) => (P.arithmetic = IsArithT(t))>>,
     <<"C18.kinds.aggregation", WellShaped(t) => (P.aggregation = IsAggrT(t))>>,
     <<"C18.kinds.single",      prop => (P.single_feature = IsSingleT(t))>>,
     <<"C18.kinds.simple",      P.simple = (P.requires \/ P.excludes)>>,
     <<"C18.kinds.complex",     P.complex = (P.logical /\ ~P.simple)>>,
     <<"C18.kinds.simple-logical", P.simple => P.logical>>,
     <<"C18.pseudostrict",      IF P.complex THEN P.pseudocomplex # P.strictcomplex
                                ELSE ~P.pseudocomplex /\ ~P.strictcomplex>>,
     <<"C18.forms.requires",    prop /\ ReqForm(t) => P.requires>>,
     <<"C18.forms.excludes",    prop /\ ExcForm(t) => P.excludes>>,
     <<"C18.pair",              prop /\ P.simple => c.has_pair>>,
     <<"C18.req.sound",         prop /\ P.requires /\ c.has_pair =>
                                   Equiv(t, ReqMeaning(c.pair[1], c.pair[2]))>>,
     <<"C18.exc.sound",         prop /\ P.excludes /\ c.has_pair =>
                                   Equiv(t, ExcMeaning(c.pair[1], c.pair[2]))>>,
     <<"C18.split.total",       prop => c.has_parts>>,
     <<"C18.split.shape",       prop /\ c.has_parts => \A i \in DOMAIN c.parts : WellShaped(c.parts[i])>>,
     <<"C18.split",             prop /\ c.has_parts /\ (\A i \in DOMAIN c.parts : WellShaped(c.parts[i]))
                                   => ConjEquiv(t, c.parts),
                                Why("dep-simplify", HasDepOps(t) /\ ConjEquiv(DepSimplify(t), c.parts))>>,
     \* split "by the AND operator": no part is itself a conjunction (raw XOR operands excepted, see dep-nested)
     <<"C18.split.clauses",     prop /\ c.has_parts /\ ~HasRawRight(t) => \A i \in DOMAIN c.parts : c.parts[i].op # "AND">>,
     <<"C18.features",          prop => (NoDup(c.features) /\ SetOf(c.features) = VarsOf(t))>> >>

---------------------------------------------------------------------------
(* Model queries (C03) *)
Filter(m, P(_)) == SelectSeq(NameSeq(m), P)
Idx(s) == [i \in DOMAIN s |-> i]
CtcIdx(R, k(_)) == SelectSeq(Idx(R.ctc), LAMBDA i : k(R.ctc[i].preds))

QueryClauses(cur, e) ==
  LET m == e.post
      R == e.ret
      F == R.feat
      aligned == /\ Len(F) = Len(m.feats) /\ Len(R.rel) = Len(m.rels) /\ Len(R.ctc) = Len(m.ctcs)
                 /\ Len(R.lookup) = Len(m.feats)
                 /\ \A i \in DOMAIN F : F[i].name = m.feats[i].name
      ok == e.anom = <<>> /\ WellFormedTree(m) /\ aligned
      AllF(P(_, _)) == \A i \in DOMAIN F : P(F[i], F[i].name)
  IN
  << <<"C03.query.shape", e.anom = <<>> /\ aligned>>,
     <<"C03.query.samemodel", e.post = cur.model>>,
     <<"C03.pure",  e.pure>>,
     <<"C03.total", R.errors = <<>> >> >>
  \o Guarded(ok,
  << <<"C03.listing.features",  SameBag(R.features, NameSeq(m))>>,
     <<"C03.listing.relations", SameBag(R.relations, Idx(m.rels))>>,
     <<"C03.listing.constraints", R.constraints = Idx(m.ctcs)>>,
     <<"C03.lookup", /\ \A i \in DOMAIN R.lookup : R.lookup[i].found = R.lookup[i].n /\ R.lookup[i].same
                     /\ R.lookup_missing = "">>,
     \* a name that is no longer (or again) in the tree is looked up in the CURRENT tree
     <<"C03.lookup.gone", \A i \in DOMAIN R.lookup_gone :
                             R.lookup_gone[i].found = (IF R.lookup_gone[i].n \in Names(m) THEN R.lookup_gone[i].n ELSE "")>>,
     <<"C03.parent",   AllF(LAMBDA q, f : q.parent = TreeParent(m, f))>>,
     <<"C03.children", AllF(LAMBDA q, f : SameBag(q.children, ChildSeq(m, f)))>>,
     <<"C03.nrel",     AllF(LAMBDA q, f : q.nrel = Len(RelsOf(m, f)))>>,
     <<"C03.root",     AllF(LAMBDA q, f : q.is_root = (f = m.root))>>,
     <<"C03.leaf",     AllF(LAMBDA q, f : q.is_leaf = IsLeaf(m, f))>>,
     <<"C03.kind.mandatory",   \A j \in DOMAIN m.rels : R.rel[j].is_mandatory   = (KindOf(m.rels[j]) = "mandatory")>>,
     <<"C03.kind.optional",    \A j \in DOMAIN m.rels : R.rel[j].is_optional    = (KindOf(m.rels[j]) = "optional")>>,
     <<"C03.kind.or",          \A j \in DOMAIN m.rels : R.rel[j].is_or          = (KindOf(m.rels[j]) = "or")>>,
     <<"C03.kind.alternative", \A j \in DOMAIN m.rels : R.rel[j].is_alternative = (KindOf(m.rels[j]) = "alternative")>>,
     <<"C03.kind.mutex",       \A j \in DOMAIN m.rels : R.rel[j].is_mutex       = (KindOf(m.rels[j]) = "mutex")>>,
     <<"C03.kind.cardinality", \A j \in DOMAIN m.rels : R.rel[j].is_cardinal    = (KindOf(m.rels[j]) = "cardinality")>>,
     <<"C03.kind.group",       \A j \in DOMAIN m.rels : R.rel[j].is_group       = IsGroupRel(m.rels[j])>>,
     <<"C03.feature.mandatory", AllF(LAMBDA q, f : q.is_mandatory = (HolderKind(m, f) = "mandatory"))>>,
     <<"C03.feature.optional",  AllF(LAMBDA q, f : q.is_optional  = (HolderKind(m, f) = "optional"))>>,
     <<"C03.feature.or_group",  AllF(LAMBDA q, f : q.is_or_group  = HasRelKind(m, f, "or"))>>,
     <<"C03.feature.alternative_group", AllF(LAMBDA q, f : q.is_alternative_group = HasRelKind(m, f, "alternative"))>>,
     <<"C03.feature.mutex_group",       AllF(LAMBDA q, f : q.is_mutex_group = HasRelKind(m, f, "mutex"))>>,
     <<"C03.feature.cardinality_group", AllF(LAMBDA q, f : q.is_cardinality_group =
                                            (\E i \in DOMAIN RelsOf(m, f) : IsGroupRel(RelsOf(m, f)[i]) /\ KindOf(RelsOf(m, f)[i]) = "cardinality"))>>,
     <<"C03.feature.group",     AllF(LAMBDA q, f : q.is_group = (NGroupRels(m, f) >= 1))>>,
     <<"C03.feature.multigroup", AllF(LAMBDA q, f : q.is_multiple_group_decomposition = (NGroupRels(m, f) > 1))>>,
     <<"C03.feature.boolean",   AllF(LAMBDA q, f : q.is_boolean   = (FeatOf(m, f).ftype = "Boolean"))>>,
     <<"C03.feature.numerical", AllF(LAMBDA q, f : q.is_numerical = (FeatOf(m, f).ftype \in {"Integer", "Real"}))>>,
     <<"C03.feature.string",    AllF(LAMBDA q, f : q.is_string    = (FeatOf(m, f).ftype = "String"))>>,
     <<"C03.feature.multifeature", AllF(LAMBDA q, f : q.is_multifeature = (FeatOf(m, f).fclo # 1 \/ FeatOf(m, f).fchi # 1))>>,
     <<"C03.lists.mandatory", SameBag(R.lists.mandatory, Filter(m, LAMBDA f : HolderKind(m, f) = "mandatory"))>>,
     <<"C03.lists.optional",  SameBag(R.lists.optional,  Filter(m, LAMBDA f : HolderKind(m, f) = "optional"))>>,
     <<"C03.lists.alternative_group", SameBag(R.lists.alternative_group, Filter(m, LAMBDA f : HasRelKind(m, f, "alternative")))>>,
     <<"C03.lists.or_group",  SameBag(R.lists.or_group,  Filter(m, LAMBDA f : HasRelKind(m, f, "or")))>>,
     <<"C03.lists.boolean",   SameBag(R.lists.boolean,   Filter(m, LAMBDA f : FeatOf(m, f).ftype = "Boolean"))>>,
     <<"C03.lists.numerical", SameBag(R.lists.numerical, Filter(m, LAMBDA f : FeatOf(m, f).ftype \in {"Integer", "Real"}))>>,
     <<"C03.lists.string",    SameBag(R.lists.string,    Filter(m, LAMBDA f : FeatOf(m, f).ftype = "String"))>>,
     <<"C03.ctclist.logical",       SameBag(R.ctclists.logical,       CtcIdx(R, LAMBDA P : P.logical))>>,
     <<"C03.ctclist.arithmetic",    SameBag(R.ctclists.arithmetic,    CtcIdx(R, LAMBDA P : P.arithmetic))>>,
     <<"C03.ctclist.aggregation",   SameBag(R.ctclists.aggregation,   CtcIdx(R, LAMBDA P : P.aggregation))>>,
     <<"C03.ctclist.complex",       SameBag(R.ctclists.complex,       CtcIdx(R, LAMBDA P : P.complex))>>,
     <<"C03.ctclist.simple",        SameBag(R.ctclists.simple,        CtcIdx(R, LAMBDA P : P.simple))>>,
     <<"C03.ctclist.pseudocomplex", SameBag(R.ctclists.pseudocomplex, CtcIdx(R, LAMBDA P : P.pseudocomplex))>>,
     <<"C03.ctclist.strictcomplex", SameBag(R.ctclists.strictcomplex, CtcIdx(R, LAMBDA P : P.strictcomplex))>>,
     <<"C03.ctclist.excludes",      SameBag(R.ctclists.excludes,      CtcIdx(R, LAMBDA P : P.excludes))>>,
     <<"C03.ctclist.requires",      SameBag(R.ctclists.requires,      CtcIdx(R, LAMBDA P : P.requires))>>,
     <<"C03.ctc.ast", \A i \in DOMAIN m.ctcs : R.ctc[i].ast = m.ctcs[i].ast>>,
     \* get_new_ctc_name (no listed property: clauses X.*): fresh, the prefix itself when that is free, pure
     <<"X.newname.fresh",  \A i \in DOMAIN R.newnames : \A k \in DOMAIN m.ctcs : R.newnames[i].got # m.ctcs[k].name>>,
     <<"X.newname.prefix", \A i \in DOMAIN R.newnames :
                              (\A k \in DOMAIN m.ctcs : R.newnames[i].prefix # m.ctcs[k].name) => R.newnames[i].got = R.newnames[i].prefix>>,
     <<"X.newname.pure",   \A i \in DOMAIN R.newnames : R.newnames[i].pure>> >>)
  \o Guarded(ok, Concat([i \in DOMAIN R.ctc |-> ClassifyClauses(R.ctc[i])]))

---------------------------------------------------------------------------
(* Analysis operations (C13-C16, C19).  The model must be left unchanged;  *)
(* the value must satisfy the operation's result relation, which mentions  *)
(* only the model of THIS execution; and over the whole history equal      *)
(* (operation, argument, model) must give equal results whatever object    *)
(* was used and whatever it analysed before (memo).                        *)
ExecClauses(cur, e) ==
  LET m  == cur.model
      op == e.args.op
      R  == e.ret
      p  == PropOfOp(op)
      ok == e.out = "value" /\ R.bad = <<>> /\ WellFormedTree(m)
      same == {i \in DOMAIN cur.memo : cur.memo[i].op = op /\ cur.memo[i].f = e.args.f /\ cur.memo[i].model = m}
  IN
  << <<"C19.pure." \o op, e.anom = <<>> /\ e.post = m>>,
     <<p \o "." \o op \o ".total", e.out = "value">>,
     <<p \o "." \o op \o ".shape", e.out = "value" => R.bad = <<>> >>,
     <<"C19.fresh." \o op, \A i \in same : cur.memo[i].out = e.out /\ cur.memo[i].ret = R>>,
     \* a model returned by a reader must be usable by every operation (C02)
     <<"C02.usable." \o op, e.args.ctx = "afterread" => e.out = "value">> >>
  \o Guarded(ok, IF op = "metrics" THEN MetricsClauses(m, e.args, R) ELSE OpValueClauses(m, op, e.args.f, R))

---------------------------------------------------------------------------
(* Random attribute generation (C19), the one mutating operation.          *)
(* args: name, leaves, unset, elems : Seq(token), ranges : Seq([isint, lo, *)
(* hi]) with bounds scaled by args.scale; ret.added : Seq([f, tok, isnum,  *)
(* isint, num]) describes the attribute named args.name of every feature   *)
(* after the call.                                                         *)
InDomain(args, a) ==
  \/ \E k \in DOMAIN args.elems : args.elems[k] = a.tok
  \/ /\ a.isnum
     /\ \E k \in DOMAIN args.ranges :
           LET rg == args.ranges[k]
           IN  /\ rg.lo <= a.num /\ a.num <= rg.hi
               /\ rg.isint => (a.isint /\ a.num % args.scale = 0)
HasAttr(ft, n) == \E k \in DOMAIN ft.attrs : ft.attrs[k].name = n
GenAttrClauses(cur, e) ==
  LET m == cur.model
      p == e.post
      A == e.args
      same == Len(p.feats) = Len(m.feats) /\ \A i \in DOMAIN m.feats : p.feats[i].name = m.feats[i].name
      Targeted(i) == (~A.leaves \/ IsLeaf(m, m.feats[i].name)) /\ ~HasAttr(m.feats[i], A.name)
      NewAttr(i) == p.feats[i].attrs[Len(p.feats[i].attrs)]
  IN
  IF A.unset
  THEN << <<"C19.gen.nodomain", e.out = "error:FlamaException">>,
          <<"C19.gen.nodomain.untouched", p = m>> >>
  ELSE
  << <<"C19.gen.total", e.out = "value">>,
     <<"C19.gen.shape", e.anom = <<>> /\ same>> >>
  \o Guarded(e.out = "value" /\ e.anom = <<>> /\ same /\ WellFormedTree(m),
  << <<"C19.gen.added", \A i \in DOMAIN m.feats : Targeted(i) =>
          /\ Len(p.feats[i].attrs) = Len(m.feats[i].attrs) + 1
          /\ SubSeq(p.feats[i].attrs, 1, Len(m.feats[i].attrs)) = m.feats[i].attrs
          /\ NewAttr(i).name = A.name /\ NewAttr(i).owner = m.feats[i].name>>,
     <<"C19.gen.value", \A k \in DOMAIN e.ret.added :
          LET a == e.ret.added[k]
              i == CHOOSE i \in DOMAIN m.feats : m.feats[i].name = a.f
          IN  Targeted(i) => InDomain(A, a)>>,
     <<"C19.gen.untouched",
          /\ p.root = m.root /\ p.rels = m.rels /\ p.ctcs = m.ctcs
          /\ \A i \in DOMAIN m.feats :
                /\ ~Targeted(i) => p.feats[i] = m.feats[i]
                /\ [p.feats[i] EXCEPT !.attrs = <<>>] = [m.feats[i] EXCEPT !.attrs = <<>>]>> >>)

---------------------------------------------------------------------------
(* Equality and hashing (C20).  e.post / e.other are the projections of    *)
(* the two independently built models; e.ret holds == both ways, !=, hash  *)
(* agreement and x == x for the models and for every pair of features,     *)
(* relations and constraints.                                              *)
\* caseonly: the two sides differ in the letter case of constraint names only - the one situation
\* where the statement allows either answer, so only the answer-independent clauses apply
PairClauses(p, q, expected, caseonly) ==
  << <<p \o ".refl", q.refl>>,
     <<p \o ".sym",  q.eq = q.qe>>,
     <<p \o ".ne",   q.ne = ~q.eq>>,
     <<p \o ".hash", q.eq => q.h>>,
     <<p \o ".perm", caseonly \/ (expected => q.eq)>>,
     <<p \o ".edit", caseonly \/ (~expected => ~q.eq)>> >>
\* The order relation sorted() relies on (not part of any listed property: clauses X.*): strict, compatible
\* with equality, and total on features
OrderClauses(kind, q) ==
  << <<"X.order." \o kind \o ".asym",   ~(q.lt /\ q.gt)>>,
     <<"X.order." \o kind \o ".eqcompat", q.eq => (~q.lt /\ ~q.gt)>>,
     <<"X.order." \o kind \o ".total",  kind = "feature" => (q.lt \/ q.gt \/ q.eq)>> >>
\* some bijection between the constraints of the two models pairs up constraints that the library
\* itself reports equal (R.ctcs holds every pair i, j)
CtcEqOf(R, i, j) == \E k \in DOMAIN R.ctcs : R.ctcs[k].i = i /\ R.ctcs[k].j = j /\ R.ctcs[k].eq
CtcMatching(R, n) ==
  \E p \in Permutations(1..n) : \A i \in 1..n : CtcEqOf(R, i, p[i])
CompareClauses(cur, e) ==
  LET a == e.post
      b == e.other
      R == e.ret
      ok == e.anom = <<>> /\ WellFormedTree(a) /\ WellFormedTree(b)
            /\ Len(R.feats) = Len(a.feats) * Len(b.feats) /\ Len(R.rels) = Len(a.rels) * Len(b.rels)
            /\ Len(R.ctcs) = Len(a.ctcs) * Len(b.ctcs)
  IN
  << <<"C20.total", R.errors = <<>> >>,
     <<"C20.compare.shape", ok>>,
     <<"C20.compare.left",  a = cur.model>>,
     <<"C20.compare.right", SpecEq(b, cur.other) /\ SameBag(b.feats, cur.other.feats)>> >>
  \o Guarded(ok,
       PairClauses("C20.model", R.model, SpecEq(a, b), e.args.how = "casectc" /\ a.ctcs # <<>>)
       \* whatever it answers for letter-case variants, model equality must agree with the element equality it is built from
       \o << <<"C20.model.consistent",
                (SpecEq([a EXCEPT !.ctcs = <<>>], [b EXCEPT !.ctcs = <<>>]) /\ Len(a.ctcs) = Len(b.ctcs) /\ Len(a.ctcs) <= 4
                 /\ CtcMatching(R, Len(a.ctcs))) => R.model.eq>> >>
       \o Concat([k \in DOMAIN R.feats |-> OrderClauses("feature", R.feats[k])])
       \o Concat([k \in DOMAIN R.rels |-> OrderClauses("relation", R.rels[k])])
       \o Concat([k \in DOMAIN R.ctcs |-> OrderClauses("constraint", R.ctcs[k])])
       \o Concat([k \in DOMAIN R.feats |-> PairClauses("C20.feature", R.feats[k],
                      a.feats[R.feats[k].i].name = b.feats[R.feats[k].j].name, FALSE)])
       \o Concat([k \in DOMAIN R.rels |-> PairClauses("C20.relation", R.rels[k],
                      RelEq(a.rels[R.rels[k].i], b.rels[R.rels[k].j]), FALSE)])
       \o Concat([k \in DOMAIN R.ctcs |-> PairClauses("C20.constraint", R.ctcs[k],
                      a.ctcs[R.ctcs[k].i].ast = b.ctcs[R.ctcs[k].j].ast, e.args.how = "casectc")]))

---------------------------------------------------------------------------
(* Serialisation and round trips (C01, C05-C08, C12, C02).                 *)
(*   cur.m0   the model before the first Write of the history              *)
(*   cur.m1   the first read-back; cur.gen the number of reads so far      *)
(*   cur.wd   digests of the writes so far; cur.wmemo (fmt, model, digest) *)
WriteClauses(cur, e) ==
  LET m   == cur.model
      fmt == e.args.fmt
      p   == PropOfFmt(fmt)
      R   == e.ret
      k   == Len(cur.wd) + 1                 \* this is the k-th write
      src == IF cur.gen = 0 THEN m ELSE cur.m0
      frag == fmt \in Formats /\ InFrag(fmt, src)
      same == {i \in DOMAIN cur.wmemo : cur.wmemo[i].fmt = fmt /\ cur.wmemo[i].model = m}
  IN
  << <<"C12.pure." \o fmt,    e.anom = <<>> /\ e.post = m>>,
     <<"C12.retfile." \o fmt, e.out = "value" => R.same>>,
     <<"C12.utf8." \o fmt,    e.out = "value" => R.utf8>>,
     <<"C12.functional." \o fmt, e.out = "value" => \A i \in same : cur.wmemo[i].digest = R.digest>>,
     <<p \o ".write.total",   frag => e.out = "value">>,
     \* cycle rule: from the second write on the text no longer changes
     <<p \o ".cycle.text",    frag /\ e.out = "value" /\ k >= 3 /\ cur.fmt = fmt /\ cur.gen = k - 1 => R.digest = cur.wd[k - 1]>>,
     <<p \o ".cycle.text1",   frag /\ e.out = "value" /\ k = 2 /\ cur.fmt = fmt /\ cur.gen = 1 /\ SameModel(cur.m1, cur.m0)
                                 => R.digest = cur.wd[1]>> >>

\* what every successful read must satisfy, whatever was read (C02)
ReadCommon(e) ==
  LET b  == e.post
      ok == e.out = "value" /\ e.anom = <<>>
  IN
  << <<"C02.read.shape", e.out = "value" => e.anom = <<>> >> >>
  \o Guarded(ok, WfClauses("C02", b) \o AstClauses("C02", b)
       \o << <<"C02.ctcfeatures", (\A i \in DOMAIN b.ctcs : WellShaped(b.ctcs[i].ast)) =>
                  /\ e.ret.errors = <<>> /\ Len(e.ret.ctcfeatures) = Len(b.ctcs)
                  /\ \A i \in DOMAIN b.ctcs : IsPropT(b.ctcs[i].ast) =>
                        (NoDup(e.ret.ctcfeatures[i]) /\ SetOf(e.ret.ctcfeatures[i]) = VarsOf(b.ctcs[i].ast))>> >>)

ReadClauses(cur, e) ==
  LET fmt == e.args.fmt
      p   == PropOfFmt(fmt)
      b   == e.post
      frag == fmt \in Formats /\ InFrag(fmt, cur.m0) /\ cur.fmt = fmt
      ok  == e.out = "value" /\ e.anom = <<>>
  IN
  << <<p \o ".read.total", frag => e.out = "value">>,
     \* what comes back is a model at all (the preserve clauses below presuppose it)
     <<p \o ".read.shape", frag /\ e.out = "value" => e.anom = <<>> >>,
     <<p \o ".read.wellformed", frag /\ ok => WellFormedTree(b)>>,
     <<"C02.ctcfeatures.doc", frag /\ ok /\ Len(e.ret.ctcfeatures) = Len(cur.m0.ctcs) =>
           \A i \in DOMAIN cur.m0.ctcs : IsPropT(cur.m0.ctcs[i].ast) => SetOf(e.ret.ctcfeatures[i]) = VarsOf(cur.m0.ctcs[i].ast)>> >>
  \o ReadCommon(e)
  \o Guarded(fmt = "json" /\ frag /\ cur.pj.out # "none",
       << <<"C05.parsejson", ok /\ cur.pj.out = "value" /\ cur.pj.anom = <<>> /\ cur.pj.post = b>> >>)
  \o Guarded(ok /\ frag /\ cur.gen = 0 /\ WellFormedTree(b), PreserveClauses(p, fmt, cur.m0, b))
  \o Guarded(frag /\ cur.gen >= 1,
       << <<p \o ".cycle.model", ok /\ SameModel(b, cur.m1)>> >>)

\* Reading a document emitted by an independent reference emitter from the reference model
\* e.args.model (C04 for UVL, C09 for the other formats); broken documents must be rejected.
ReadRefClauses(cur, e) ==
  LET fmt == e.args.fmt
      ref == e.args.model
      b   == e.post
      p   == IF fmt = "uvl" THEN "C04" ELSE "C09." \o fmt
      ok  == e.out = "value" /\ e.anom = <<>>
  IN
  IF e.args.broken # "none"
  THEN << <<p \o ".rejects." \o e.args.broken, e.out # "value">> >>
  ELSE
  << <<p \o ".accepts", e.out = "value">>,
     \* the object graph is a model at all (no shared or wrongly typed parts: the projection found nothing anomalous)
     <<p \o ".shape", e.out = "value" => e.anom = <<>> >>,
     <<p \o ".wellformed", ok => WellFormedTree(b)>>,
     \* the features a constraint reports are the names WRITTEN in the document's constraint
     <<"C02.ctcfeatures.doc", ok /\ Len(e.ret.ctcfeatures) = Len(ref.ctcs) =>
           \A i \in DOMAIN ref.ctcs : IsPropT(ref.ctcs[i].ast) => SetOf(e.ret.ctcfeatures[i]) = VarsOf(ref.ctcs[i].ast)>> >>
  \o ReadCommon(e)
  \o Guarded(ok /\ WellFormedTree(b),
       IF fmt = "uvl"
       THEN << <<"C04.denote.tree", SameTree(b, ref)>>,
               <<"C04.denote.ctcs", /\ Len(b.ctcs) = Len(ref.ctcs)
                                    /\ \A i \in DOMAIN b.ctcs : b.ctcs[i].ast = ref.ctcs[i].ast>> >>
       ELSE PreserveClauses(p, fmt, ref, b))

\* The shipped FaMa / Betty corpus: the twelve numbers of the generator's .statistics file are
\* independent ground truth; files small enough carry the full projection and TLC recounts them.
BettyStats(m) ==
  LET K(j) == KindOf(m.rels[j])
      NRel(P(_)) == Cardinality({j \in DOMAIN m.rels : P(j)})
      SumKids(P(_)) == SumSeq([j \in DOMAIN m.rels |-> IF P(j) THEN NKids(m.rels[j]) ELSE 0])
      nch(f) == Len(ChildSeq(m, f))
  IN  [nfeat |-> Len(m.feats),
       mand |-> NRel(LAMBDA j : K(j) = "mandatory"), opt |-> NRel(LAMBDA j : K(j) = "optional"),
       orrel |-> NRel(LAMBDA j : K(j) = "or"), altrel |-> NRel(LAMBDA j : K(j) = "alternative"),
       orsub |-> SumKids(LAMBDA j : K(j) = "or"), altsub |-> SumKids(LAMBDA j : K(j) = "alternative"),
       maxbf |-> IF m.rels = <<>> THEN 0 ELSE MaxOf({nch(f) : f \in Names(m)}),
       maxset |-> IF \A j \in DOMAIN m.rels : ~IsGroupRel(m.rels[j]) THEN 0
                  ELSE MaxOf({NKids(m.rels[j]) : j \in {j \in DOMAIN m.rels : IsGroupRel(m.rels[j])}}),
       nctc |-> Len(m.ctcs),
       req |-> Cardinality({i \in DOMAIN m.ctcs : m.ctcs[i].ast.op = "REQUIRES"}),
       exc |-> Cardinality({i \in DOMAIN m.ctcs : m.ctcs[i].ast.op = "EXCLUDES"})]
ReadCorpusClauses(cur, e) ==
  << <<"C09.corpus.accepts", e.out = "value">> >>
  \o Guarded(e.out = "value" /\ e.args.has_stats,
       \* Betty reports 1 as the largest set relationship of a model that has none
       << <<"C09.corpus.stats", LET s == e.args.stats  t == e.ret.summary
                                IN  \/ t = s
                                    \/ (t.maxset = 0 /\ s.maxset = 1 /\ [t EXCEPT !.maxset = 1] = s)>> >>)
  \o Guarded(e.out = "value" /\ e.args.full,
       ReadCommon(e)
       \o << <<"C09.corpus.recount", e.anom = <<>> /\ WellFormedTree(e.post) => BettyStats(e.post) = e.ret.summary>> >>)

\* Tree-shape operations on corpus models too large for TLC to ingest: the operations must return,
\* and their scalar results must agree with one another (weaker than the definitions; stated as such).
ExecBigClauses(cur, e) ==
  LET R == e.ret
  IN << <<"C16.big.total", R.errors = <<>> >>,
        <<"C16.big.count_is_len_leaves", R.errors = <<>> => R.count_leaves = R.len_leaves>>,
        <<"C16.big.depth_is_longest_chain", R.errors = <<>> => R.depth = R.max_anc_len>>,
        <<"C16.big.leaves_bound", R.errors = <<>> => (R.len_leaves >= 1 /\ R.len_leaves <= R.nfeat)>>,
        <<"C16.big.abf", R.errors = <<>> => (R.nbranch = 0 \/ RatioOK(R.abf100, R.nfeat - 1, R.nbranch))>>,
        <<"C16.big.varpoints", R.errors = <<>> => R.nvarpoints <= R.nbranch>> >>

\* A chain of n mandatory features (harness-built, too deep for TLC to ingest): its only
\* configuration selects everything, so the results are known in closed form.
ExecChainClauses(cur, e) ==
  LET R == e.ret
      n == e.args.n
  IN << <<"C13.chain.total", R.estimate_out = "value">>, <<"C13.chain.value", R.estimate_out = "value" => R.estimate = 1>>,
        <<"C14.chain.total", R.core_out = "value">>,     <<"C14.chain.value", R.core_out = "value" => R.core_len = n /\ R.core_distinct = n>>,
        <<"C15.chain.total", R.atomic_out = "value">>,   <<"C15.chain.value", R.atomic_out = "value" => R.atomic_sets = 1 /\ R.atomic_first = n>>,
        <<"C16.chain.total", R.depth_out = "value" /\ R.leaves_out = "value" /\ R.anc_out = "value">>,
        <<"C16.chain.value", (R.depth_out = "value" /\ R.leaves_out = "value" /\ R.anc_out = "value")
                              => (R.depth = n - 1 /\ R.leaves = 1 /\ R.anc_len = n - 1)>> >>

\* The estimate on a model whose root owns relations over many LEAF children (harness-built from args.groups):
\* the exact count is a product of sums of binomial coefficients, computed on decimal digit sequences (FMBig)
ExecWideClauses(cur, e) ==
  << <<"C13.wide.total", e.ret.out = "value">>,
     <<"C13.wide.exact", e.ret.out = "value" => e.ret.digits = WideCount(e.args.groups)>> >>

---------------------------------------------------------------------------
(* Exports (C10, C11): e.ret.doc is the parsed abstract syntax *)
ExportClauses(cur, e) ==
  LET m == cur.model
      lang == e.args.lang
      R == e.ret
      d == R.doc
      p == IF lang = "clafer" THEN "C11." ELSE "C10." \o lang \o "."
      frag == IF lang = "clafer" THEN InClaferFrag(m) ELSE InExportFrag(m)
      ok == frag /\ e.out = "value" /\ R.parsed
      ids == CASE lang = "splot" -> SplotIds(d) [] lang = "pl" -> PLVars(d) [] OTHER -> ClaferNames(d)
      cfg == CASE lang = "splot" -> SplotConfigs(d) [] lang = "pl" -> PLConfigs(d) [] OTHER -> ClaferConfigs(d)
      nested == lang = "splot" /\ ModelHasRawRight(m)
  IN
  << <<"C12.pure." \o lang, e.anom = <<>> /\ e.post = m>>,
     <<p \o "total",  frag => e.out = "value", Why("dep-nested", nested)>>,
     <<p \o "parses", frag /\ e.out = "value" => R.parsed, Why("dep-nested", nested)>> >>
  \o Guarded(ok,
  << <<p \o "allfeatures", ids = Names(m) /\ (lang = "splot" => NoDup(d.ids)) /\ (lang = "clafer" => d.inst = m.root),
          Why("dep-nested", nested)>>,
     <<p \o "sameconfigs", ids = Names(m) => cfg = Configs(m),
          IF nested THEN "dep-nested"
          ELSE Why("dep-simplify", lang = "splot" /\ ids = Names(m) /\ ModelHasDepOps(m) /\ cfg = Configs(DepModel(m)))>> >>)
  \o Guarded(ok /\ lang = "clafer",
  << <<"C11.ids.attrs", \* every attribute used is declared, with the same spelling
          \A i \in DOMAIN d.nodes : \A k \in DOMAIN d.nodes[i].attrs :
             \E j \in DOMAIN d.decls : d.decls[j].name = d.nodes[i].attrs[k].name
                                        /\ d.decls[j].raw_quoted = d.nodes[i].attrs[k].quoted>>,
     <<"C11.ids.declared", \A i \in DOMAIN d.nodes : (d.nodes[i].attrs # <<>>) => d.nodes[i].attributed>>,
     <<"C11.ids.attrnames", \A f \in Names(m) :
          LET want == {FeatOf(m, f).attrs[k].name : k \in DOMAIN FeatOf(m, f).attrs}
              S == {i \in DOMAIN d.nodes : d.nodes[i].name = f}
          IN  \A i \in S : {d.nodes[i].attrs[k].name : k \in DOMAIN d.nodes[i].attrs} = want>>,
     <<"C11.ids.ctcvars", \A i \in DOMAIN d.ctcs : VarsOf(d.ctcs[i]) \subseteq ClaferNames(d)>> >>)

---------------------------------------------------------------------------
ClassifyEventClauses(cur, e) ==
  << <<"C18.classify.sameast", e.ret.ast = e.args.ast>> >> \o ClassifyClauses(e.ret)

Clauses(cur, e) ==
  CASE e.a \in BuilderActions -> BuildClauses(cur, e)
    [] e.a = "Query"          -> QueryClauses(cur, e)
    [] e.a = "Load"           -> LoadClauses(cur, e)
    [] e.a = "Classify"       -> ClassifyEventClauses(cur, e)
    [] e.a = "Exec"           -> ExecClauses(cur, e)
    [] e.a = "GenAttr"        -> GenAttrClauses(cur, e)
    [] e.a = "Compare"        -> CompareClauses(cur, e)
    [] e.a = "Write"          -> WriteClauses(cur, e)
    [] e.a = "Export"         -> ExportClauses(cur, e)
    [] e.a = "Read"           -> ReadClauses(cur, e)
    [] e.a = "ReadRef"        -> ReadRefClauses(cur, e)
    [] e.a = "ReadCorpus"     -> ReadCorpusClauses(cur, e)
    [] e.a = "ExecBig"        -> ExecBigClauses(cur, e)
    [] e.a = "ExecChain"      -> ExecChainClauses(cur, e)
    [] e.a = "ExecWide"       -> ExecWideClauses(cur, e)
    [] e.a = "ReadBack"       -> << <<"C12.utf8.names." \o e.args.fmt,
                                      e.out = "value" => (e.anom = <<>> /\ Names(e.post) = Names(cur.model))>> >>
    [] e.a = "ParseJson"      -> << <<"C05.parsejson.total", InFrag("json", cur.m0) => e.out = "value">> >>
    [] e.a = "Other"          -> << <<"T.other", TRUE>> >>
    \* cross-format chain: the model a reader built becomes the source of a new write/read history
    [] e.a = "Rebase"         -> << <<"T.rebase.same", e.anom = <<>> /\ e.post = cur.model>> >>
    [] e.a = "WriteOther"     -> << <<"T.other", TRUE>> >>
    [] OTHER                  -> << <<"T.unknown-action", FALSE>> >>

Advance(cur, e) ==
  CASE e.a \in BuilderActions \cup {"Query", "GenAttr"} -> [cur EXCEPT !.model = e.post]
    [] e.a = "Load" -> [cur EXCEPT !.model = e.post, !.gen = 0, !.wd = <<>>, !.fmt = ""]
    [] e.a = "Exec" -> [cur EXCEPT !.model = e.post,
                                   !.memo = Append(@, [op |-> e.args.op, f |-> e.args.f, model |-> cur.model,
                                                       out |-> e.out, ret |-> e.ret])]
    [] e.a = "Other" -> [cur EXCEPT !.other = e.args.model]
    [] e.a = "Rebase" -> [cur EXCEPT !.gen = 0, !.wd = <<>>, !.fmt = "",
                                     !.pj = [out |-> "none", anom |-> <<>>, post |-> EmptyModel]]
    [] e.a = "ReadCorpus" -> IF e.out = "value" /\ e.args.full THEN [cur EXCEPT !.model = e.post] ELSE cur
    [] e.a = "ParseJson" -> [cur EXCEPT !.pj = [out |-> e.out, anom |-> e.anom, post |-> e.post]]
    [] e.a = "Write" -> [cur EXCEPT !.model = e.post,
                                    !.m0 = IF cur.gen = 0 /\ cur.wd = <<>> THEN cur.model ELSE @,
                                    !.fmt = IF cur.wd = <<>> THEN e.args.fmt ELSE @,
                                    !.wd = Append(@, IF e.out = "value" THEN e.ret.digest ELSE "error"),
                                    !.wmemo = IF e.out = "value"
                                              THEN Append(@, [fmt |-> e.args.fmt, model |-> cur.model, digest |-> e.ret.digest])
                                              ELSE @]
    [] e.a = "Read"  -> IF e.out = "value"
                        THEN [cur EXCEPT !.model = e.post, !.gen = @ + 1,
                                         !.m1 = IF cur.gen = 0 THEN e.post ELSE @]
                        ELSE [cur EXCEPT !.gen = @ + 1]
    [] OTHER -> cur
=============================================================================
