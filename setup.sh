#!/bin/sh
# Offline setup: verify the tools the checks need and parse every specification module.
set -e
cd "$(dirname "$0")"
command -v java >/dev/null
test -f /opt/veriftools/tla/tla2tools.jar
/venv/bin/python -c "import flamapy.metamodels.fm_metamodel.models"
for f in spec/*.tla; do
  [ -f "$f" ] || continue
  (cd spec && tla-sany "$(basename "$f")" >/dev/null) || { echo "SANY failed on $f"; exit 1; }
done
echo setup ok
