"""Known findings (DESIGN 10): genuine defects recorded rather than repaired.

known_findings.json holds two lists:
  findings: {id, property, clause, match:{...}, note}  - suppresses exactly the failing steps it matches
  fixed:    strings "fixed: property=<id> <commit> <what failed>"    - suppresses nothing
The file is read-only at run time.
"""
import fnmatch
import json
import os

PATH = os.path.join(os.path.dirname(os.path.dirname(os.path.abspath(__file__))), 'known_findings.json')


def load():
    if not os.path.exists(PATH):
        return []
    with open(PATH) as f:
        return json.load(f).get('findings', [])


def _ast_ops(t, acc):
    if not isinstance(t, dict) or t.get('op') in (None, 'NIL'):
        return acc
    acc.add(t['op'])
    _ast_ops(t.get('l'), acc)
    _ast_ops(t.get('r'), acc)
    return acc


def facts(meta, ev, trace):
    """The small fixed vocabulary findings may refer to, computed from the case."""
    f = {'action': ev.get('a', ''), 'fmt': (ev.get('args') or {}).get('fmt', ''),
         'op': (ev.get('args') or {}).get('op', ''),
         'naming': (meta.get('naming') or {}).get('classes', ['plain'])}
    model = meta.get('model') or {}
    kinds = set()
    for r in model.get('rels', []):
        n, lo, hi = len(r['kids']), r['lo'], r['hi']
        if n == 1:
            k = 'mandatory' if (lo, hi) == (1, 1) else 'optional' if (lo, hi) == (0, 1) else 'card1'
        else:
            k = ('alternative' if (lo, hi) == (1, 1) else 'or' if (lo, hi) == (1, n)
                 else 'mutex' if (lo, hi) == (0, 1) else 'cardinality')
        kinds.add(k)
    f['kinds'] = kinds
    ops = set()
    for c in model.get('ctcs', []):
        _ast_ops(c.get('ast'), ops)
    if isinstance(ev.get('ret'), dict) and isinstance(ev['ret'].get('ast'), dict):
        _ast_ops(ev['ret']['ast'], ops)
    f['ops'] = ops
    f['nfeat'] = len(model.get('feats', []))
    f['nctc'] = len(model.get('ctcs', []))
    f['tags'] = set(meta.get('tags', []))
    return f


def match(entries, prop, clause, meta, ev, trace):
    fs = None
    for e in entries:
        if e['property'] != prop:
            continue
        cl = e['clause']
        if not (clause == cl or fnmatch.fnmatchcase(clause, cl)):
            continue
        if fs is None:
            fs = facts(meta, ev, trace)
        ok = True
        for k, v in e.get('match', {}).items():
            if k == 'has_kind':
                ok = ok and v in fs['kinds']
            elif k == 'only_kinds':
                ok = ok and fs['kinds'] <= set(v)
            elif k == 'ast_has_op':
                ok = ok and v in fs['ops']
            elif k == 'action':
                ok = ok and fs['action'] == v
            elif k == 'fmt':
                ok = ok and fs['fmt'] == v
            elif k == 'op':
                ok = ok and fs['op'] == v
            elif k == 'name_class':
                ok = ok and v in fs['naming']
            elif k == 'nfeat':
                ok = ok and fs['nfeat'] == v
            elif k == 'tag':
                ok = ok and v in fs['tags']
            else:
                raise ValueError('unknown finding predicate ' + k)
        if ok:
            return e
    return None
