"""Write / Read events: serialise with the library's writers, read back with its
readers, log digests and projections.  No property logic."""
import hashlib
import os

from flamapy.metamodels.fm_metamodel import transformations as T
from flamapy.metamodels.fm_metamodel.transformations.pl_writer import PLWriter

import observe
from observe import time_limit, CallTimeout, errname
from project import project, Projector

WRITERS = {'uvl': T.UVLWriter, 'json': T.JSONWriter, 'afm': T.AFMWriter, 'fide': T.FeatureIDEWriter,
           'glencoe': T.GlencoeWriter, 'splot': T.SPLOTWriter, 'clafer': T.ClaferWriter, 'pl': PLWriter}
READERS = {'uvl': T.UVLReader, 'json': T.JSONReader, 'afm': T.AFMReader, 'fide': T.FeatureIDEReader,
           'glencoe': T.GlencoeReader, 'xml': T.XMLReader}
EXT = {'uvl': '.uvl', 'json': '.json', 'afm': '.afm', 'fide': '.xml', 'glencoe': '.gfm.json',
       'splot': '.sxfm', 'clafer': '.txt', 'pl': '.exp', 'xml': '.xml'}

_counter = [0]


def iodir():
    d = os.path.join(os.environ.get('VERIF_IODIR', '/verif/.work/io'), str(os.getpid()))
    os.makedirs(d, exist_ok=True)
    return d


def new_path(fmt):
    _counter[0] += 1
    return os.path.join(iodir(), 'doc%d%s' % (_counter[0], EXT[fmt]))


def sha(b):
    return hashlib.sha256(b).hexdigest()[:24]


def write_event(fmt, model, naming, path=None, keep_text=False):
    path = path or new_path(fmt)
    if os.path.exists(path):
        os.remove(path)
    out = 'value'
    ret = {'digest': '', 'fdigest': '', 'same': False, 'utf8': False, 'len': 0}
    text = None
    try:
        with time_limit():
            text = WRITERS[fmt](path, model).transform()
    except (Exception, CallTimeout) as exc:
        out = 'error:' + errname(exc)
    if out == 'value':
        try:
            with open(path, 'rb') as f:
                data = f.read()
        except OSError:
            data = None
        if isinstance(text, str):
            tb = text.encode('utf-8', 'surrogatepass')
        elif isinstance(text, bytes):
            tb = text
        else:
            tb = repr(text).encode()
        ret['digest'] = sha(tb)
        ret['len'] = len(tb)
        if data is not None:
            ret['fdigest'] = sha(data)
            ret['same'] = data == tb
            try:
                data.decode('utf-8')
                ret['utf8'] = True
            except UnicodeDecodeError:
                ret['utf8'] = False
    post, anom = project(model, naming)
    ev = {'a': 'Write', 'args': {'fmt': fmt}, 'out': out, 'post': post, 'anom': anom, 'ret': ret}
    return ev, path, (text if keep_text else None)


def read_event(fmt, path, naming, action='Read', args=None):
    out = 'value'
    model = None
    try:
        with time_limit(30):
            model = READERS[fmt](path).transform()
    except (Exception, CallTimeout) as exc:
        out = 'error:' + errname(exc)
    post = {'root': '', 'feats': [], 'rels': [], 'ctcs': []}
    anom = []
    ret = {'ctcfeatures': [], 'errors': []}
    if out == 'value':
        pj = Projector(naming)
        try:
            post, _, _ = pj.model(model)
            anom = pj.anom
        except Exception as exc:   # a model the walk cannot even traverse
            anom = ['projection failed: ' + errname(exc)]
        for c in getattr(model, 'ctcs', []) or []:
            fs = observe._call(ret['errors'], 'get_features', c.get_features, [])
            ret['ctcfeatures'].append([naming.abs(x) if isinstance(x, str) else '?n:<%s>' % type(x).__name__
                                       for x in fs])
    a = dict(args or {}, fmt=fmt)
    return {'a': action, 'args': a, 'out': out, 'post': post, 'anom': anom, 'ret': ret}, model


def parse_json_event(path, naming):
    """JSONReader.parse_json on the already-loaded object."""
    import json as _json
    out = 'value'
    post = {'root': '', 'feats': [], 'rels': [], 'ctcs': []}
    anom = []
    try:
        with open(path, encoding='utf-8') as f:
            obj = _json.load(f)
        with time_limit():
            model = T.JSONReader.parse_json(obj)
        post, anom = project(model, naming)
    except (Exception, CallTimeout) as exc:
        out = 'error:' + errname(exc)
    return {'a': 'ParseJson', 'args': {'fmt': 'json'}, 'out': out, 'post': post, 'anom': anom}


def export_event(lang, model, naming):
    """Write with an export writer and parse the text with the strict parser of the target syntax."""
    import parse_export
    ev, path, text = write_event(lang, model, naming, keep_text=True)
    doc = parse_export.EMPTY_DOC[lang]
    parsed, err = False, ''
    if ev['out'] == 'value':
        try:
            doc = parse_export.PARSERS[lang](text if isinstance(text, str) else text.decode('utf-8'), naming)
            parsed = True
        except parse_export.ParseError as exc:
            err = str(exc)[:300]
    if os.path.exists(path):
        os.remove(path)
    return {'a': 'Export', 'args': {'lang': lang}, 'out': ev['out'], 'post': ev['post'], 'anom': ev['anom'],
            'ret': {'parsed': parsed, 'err': err, 'doc': doc, 'digest': ev['ret']['digest']}}


def readref_event(fmt, refmodel, naming, ch, broken):
    """Render the reference model with the independent emitter and read it with the library."""
    import emit_ref
    choices = {k: (v == '1') if v in ('0', '1') else v for k, v in ch.items()}
    choices['broken'] = broken
    text = emit_ref.EMITTERS[fmt](refmodel, naming, choices)
    path = new_path(fmt)
    with open(path, 'w', encoding='utf-8') as f:
        f.write(text)
    ev, _ = read_event(fmt, path, naming, action='ReadRef',
                       args={'model': refmodel, 'ch': ch, 'broken': broken})
    os.remove(path)
    return ev, text
