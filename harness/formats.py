"""Write / Read events: serialise with the library's writers, read back with its
readers, log digests and projections.  No property logic."""
import hashlib
import os

from flamapy.metamodels.fm_metamodel import transformations as T
from flamapy.metamodels.fm_metamodel.transformations.pl_writer import PLWriter

import observe
from observe import time_limit, CallTimeout, errname
from project import project, Projector

WRITERS = {'uvl': T.UVLWriter, 'json': T.JSONWriter, 'afm': T.AFMWriter, 'fide': T.FeatureIDEWriter,
           'glencoe': T.GlencoeWriter, 'splot': T.SPLOTWriter, 'clafer': T.ClaferWriter, 'pl': PLWriter}
READERS = {'uvl': T.UVLReader, 'json': T.JSONReader, 'afm': T.AFMReader, 'fide': T.FeatureIDEReader,
           'glencoe': T.GlencoeReader, 'xml': T.XMLReader}
EXT = {'uvl': '.uvl', 'json': '.json', 'afm': '.afm', 'fide': '.xml', 'glencoe': '.gfm.json',
       'splot': '.sxfm', 'clafer': '.txt', 'pl': '.exp', 'xml': '.xml'}

_counter = [0, 0]


def iodir():
    d = os.path.join(os.environ.get('VERIF_IODIR', '/verif/.work/io'), str(os.getpid()))
    os.makedirs(d, exist_ok=True)
    return d


def new_path(fmt):
    """Three file names per process and extension, reused in turn: documents are written over earlier
    ones and read again from the same path, as a user who saves a file under the same name does."""
    _counter[0] += 1
    return os.path.join(iodir(), 'doc%d%s' % (_counter[0] % 3, EXT[fmt]))


def sha(b):
    return hashlib.sha256(b).hexdigest()[:24]


def write_event(fmt, model, naming, path=None, keep_text=False):
    path = path or new_path(fmt)
    if os.path.exists(path):
        os.remove(path)
    out = 'value'
    ret = {'digest': '', 'fdigest': '', 'same': False, 'utf8': False, 'len': 0}
    text = None
    try:
        with time_limit():
            text = WRITERS[fmt](path, model).transform()
    except (Exception, CallTimeout) as exc:
        out = 'error:' + errname(exc)
    if out == 'value':
        try:
            with open(path, 'rb') as f:
                data = f.read()
        except OSError:
            data = None
        if isinstance(text, str):
            tb = text.encode('utf-8', 'surrogatepass')
        elif isinstance(text, bytes):
            tb = text
        else:
            tb = repr(text).encode()
        ret['digest'] = sha(tb)
        ret['len'] = len(tb)
        if data is not None:
            ret['fdigest'] = sha(data)
            ret['same'] = data == tb
            try:
                data.decode('utf-8')
                ret['utf8'] = True
            except UnicodeDecodeError:
                ret['utf8'] = False
    post, anom = project(model, naming)
    ev = {'a': 'Write', 'args': {'fmt': fmt}, 'out': out, 'post': post, 'anom': anom, 'ret': ret}
    return ev, path, (text if keep_text else None)


def read_event(fmt, path, naming, action='Read', args=None):
    out = 'value'
    model = None
    try:
        with time_limit(30):
            reader = READERS[fmt](path)
            model = reader.transform()
            _counter[1] += 1
            if _counter[1] % 4 == 0:      # one reader object used twice (a reader kept per path): the second result counts
                model = reader.transform()
    except (Exception, CallTimeout) as exc:
        out = 'error:' + errname(exc)
    post = {'root': '', 'feats': [], 'rels': [], 'ctcs': []}
    anom = []
    ret = {'ctcfeatures': [], 'errors': []}
    if out == 'value':
        pj = Projector(naming)
        try:
            post, _, _ = pj.model(model)
            anom = pj.anom
        except Exception as exc:   # a model the walk cannot even traverse
            anom = ['projection failed: ' + errname(exc)]
        for c in getattr(model, 'ctcs', []) or []:
            fs = observe._call(ret['errors'], 'get_features', c.get_features, [])
            ret['ctcfeatures'].append([naming.abs(x) if isinstance(x, str) else '?n:<%s>' % type(x).__name__
                                       for x in fs])
    a = dict(args or {}, fmt=fmt)
    return {'a': action, 'args': a, 'out': out, 'post': post, 'anom': anom, 'ret': ret}, model


def parse_json_event(path, naming):
    """JSONReader.parse_json on the already-loaded object."""
    import json as _json
    out = 'value'
    post = {'root': '', 'feats': [], 'rels': [], 'ctcs': []}
    anom = []
    try:
        with open(path, encoding='utf-8') as f:
            obj = _json.load(f)
        with time_limit():
            model = T.JSONReader.parse_json(obj)
        post, anom = project(model, naming)
    except (Exception, CallTimeout) as exc:
        out = 'error:' + errname(exc)
    return {'a': 'ParseJson', 'args': {'fmt': 'json'}, 'out': out, 'post': post, 'anom': anom}


def export_event(lang, model, naming):
    """Write with an export writer and parse the text with the strict parser of the target syntax."""
    import parse_export
    ev, path, text = write_event(lang, model, naming, keep_text=True)
    doc = parse_export.EMPTY_DOC[lang]
    parsed, err = False, ''
    if ev['out'] == 'value':
        try:
            doc = parse_export.PARSERS[lang](text if isinstance(text, str) else text.decode('utf-8'), naming)
            parsed = True
        except parse_export.ParseError as exc:
            err = str(exc)[:300]
    if os.path.exists(path):
        os.remove(path)
    return {'a': 'Export', 'args': {'lang': lang}, 'out': ev['out'], 'post': ev['post'], 'anom': ev['anom'],
            'ret': {'parsed': parsed, 'err': err, 'doc': doc, 'digest': ev['ret']['digest']}}


def readref_event(fmt, refmodel, naming, ch, broken):
    """Render the reference model with the independent emitter and read it with the library."""
    import emit_ref
    choices = {k: (v == '1') if v in ('0', '1') else v for k, v in ch.items()}
    choices['broken'] = broken
    text = emit_ref.EMITTERS[fmt](refmodel, naming, choices)
    path = new_path(fmt)
    with open(path, 'w', encoding='utf-8') as f:
        f.write(text)
    ev, _ = read_event(fmt, path, naming, action='ReadRef',
                       args={'model': refmodel, 'ch': ch, 'broken': broken})
    os.remove(path)
    return ev, text


# ---------------------------------------------------------------------------
# The shipped FaMa / Betty corpus (C09, C02, C16)
import re  # noqa: E402

STAT_FIELDS = [('nfeat', r'Number of features: (\d+)'), ('mand', r'Mandatory features: (\d+)'),
               ('opt', r'Optinal features: (\d+)'), ('orrel', r'Or-relationships: (\d+)'),
               ('altrel', r'Alternative relationships: (\d+)'), ('orsub', r'Subfeatures in or-relationships: (\d+)'),
               ('altsub', r'Subfeatures in alternative relationships: (\d+)'), ('maxbf', r'Maximum branching factor: (\d+)'),
               ('maxset', r'Maximum number of children in a set relationship: (\d+)'),
               ('nctc', r'Cross-tree constraints: (\d+)'), ('req', r'Requires constraints: (\d+)'),
               ('exc', r'Excludes constraints: (\d+)')]
ZERO_STATS = {k: 0 for k, _ in STAT_FIELDS}


def parse_statistics(path):
    txt = open(path, encoding='utf-8', errors='replace').read()
    out = {}
    for key, rx in STAT_FIELDS:
        m = re.search(rx, txt)
        if not m:
            return None
        out[key] = int(m.group(1))
    return out


def summarize(post):
    """The same twelve numbers counted on the projection (validated against the specification's
    own Stats operator on every file small enough to be judged in full)."""
    s = dict(ZERO_STATS)
    s['nfeat'] = len(post['feats'])
    nchild = {}
    for r in post['rels']:
        n, lo, hi = len(r['kids']), r['lo'], r['hi']
        nchild[r['owner']] = nchild.get(r['owner'], 0) + n
        if n == 1 and (lo, hi) == (1, 1):
            s['mand'] += 1
        elif n == 1 and (lo, hi) == (0, 1):
            s['opt'] += 1
        elif n > 1 and (lo, hi) == (1, 1):
            s['altrel'] += 1
            s['altsub'] += n
        elif n > 1 and (lo, hi) == (1, n):
            s['orrel'] += 1
            s['orsub'] += n
        if n > 1:
            s['maxset'] = max(s['maxset'], n)
    s['maxbf'] = max(nchild.values()) if nchild else 0
    s['nctc'] = len(post['ctcs'])
    s['req'] = sum(1 for c in post['ctcs'] if c['ast']['op'] == 'REQUIRES')
    s['exc'] = sum(1 for c in post['ctcs'] if c['ast']['op'] == 'EXCLUDES')
    return s


def corpus_event(path, naming_cls, full_bound):
    """Read one shipped FaMa XML file.  Names are kept as they are (identity naming)."""
    import names
    nm = names.identity_naming()
    nm.abs = lambda c: project_name(c)
    stats_path = path[:-4] + '.statistics'
    stats = parse_statistics(stats_path) if os.path.exists(stats_path) else None
    ev, model = read_event('xml', path, nm, action='ReadCorpus',
                           args={'file': os.path.relpath(path, os.environ.get('VERIF_REPO', '/repo')), 'has_stats': stats is not None,
                                 'stats': stats or ZERO_STATS})
    summary = summarize(ev['post']) if ev['out'] == 'value' else dict(ZERO_STATS)
    ev['ret']['summary'] = summary
    ev['args']['full'] = ev['out'] == 'value' and len(ev['post']['feats']) <= full_bound
    if not ev['args']['full']:
        ev['post'] = {'root': '', 'feats': [], 'rels': [], 'ctcs': []}
        ev['ret']['ctcfeatures'] = []
    return ev, model


def project_name(c):
    from project import aesc
    return aesc(c) if isinstance(c, str) else '?n:<%s>' % type(c).__name__
