"""Independent reference emitters (C04, C09): render an abstract reference model
as a document of a format, written from the format's public definition and
sharing no code with the library's writers.  `ch` is the vector of surface
choices TLC picked.  Deliberately dumb: no property logic."""
import json
from xml.sax.saxutils import escape, quoteattr

from project import untok

UVL_OPS = {'AND': '&', 'OR': '|', 'IMPLIES': '=>', 'EQUIVALENCE': '<=>',
           'EQUALS': '==', 'LOWER': '<', 'GREATER': '>', 'LOWER_EQUALS': '<=', 'GREATER_EQUALS': '>=',
           'NOT_EQUALS': '!=', 'ADD': '+', 'SUB': '-', 'MUL': '*', 'DIV': '/'}
UVL_AGG = {'SUM': 'sum', 'AVG': 'avg', 'LEN': 'len', 'FLOOR': 'floor', 'CEIL': 'ceil'}
PLAIN = set('abcdefghijklmnopqrstuvwxyzABCDEFGHIJKLMNOPQRSTUVWXYZ0123456789_')
UVL_RESERVED = {'include', 'namespace', 'imports', 'as', 'features', 'cardinality', 'constraint', 'constraints',
                'sum', 'avg', 'len', 'floor', 'ceil', 'String', 'Integer', 'Real', 'Boolean', 'Arithmetic',
                'Type', 'or', 'alternative', 'optional', 'mandatory', 'true', 'false'}


def kids_of(m):
    out = {}
    for r in m['rels']:
        out.setdefault(r['owner'], []).append(r)
    return out


def feat(m, n):
    return next(f for f in m['feats'] if f['name'] == n)


# --------------------------------------------------------------------------- UVL
def uvl_id(name, quote):
    bare_ok = name and name[0].isalpha() and name[0].isascii() and all(c in PLAIN for c in name) \
        and name not in UVL_RESERVED
    if '.' in name:  # qualified reference: quote the parts
        return '.'.join(uvl_id(p, quote) for p in name.split('.'))
    return name if (bare_ok and not quote) else '"%s"' % name


def uvl_value(v):
    if isinstance(v, bool):
        return 'true' if v else 'false'
    if isinstance(v, (int, float)):
        return repr(v)
    if isinstance(v, str):
        return "'%s'" % v
    if isinstance(v, list):
        inner = ', '.join(uvl_value(x) for x in v)
        # the lexer of the installed uvlparser takes '[5]' for a CARDINALITY token: a one-integer vector
        # can only be written with inner blanks
        return '[ ' + inner + ' ]' if (len(v) == 1 and inner.isdigit()) else '[' + inner + ']'
    if isinstance(v, dict):
        return '{' + ', '.join(k if x is None else '%s %s' % (k, uvl_value(x)) for k, x in v.items()) + '}'
    raise ValueError(v)


def uvl_expr(t, nm, ch, top=False, bare=False):
    op = t['op']
    if op == 'VAR':
        s = uvl_id(nm.conc(t['v']), ch['quote'])
    elif op in ('INT', 'NUM'):
        s = t['v']
    elif op == 'STR':
        s = t['v']
    elif op == 'NOT':
        s = '!' + uvl_expr(t['l'], nm, ch)
        return '(%s)' % s if (ch['parens'] and not top) else s
    elif op in UVL_AGG:
        args = [uvl_id(nm.conc(x['v']), ch['quote']) for x in (t['l'], t['r']) if x['op'] != 'NIL']
        s = '%s(%s)' % (UVL_AGG[op], ', '.join(args))
    else:
        # a left-nested chain of ONE logical operator may be written without inner parentheses (choice `flat`): the
        # grammar's binary alternatives are left-recursive, hence left-associative, so `a => b => c` denotes `(a => b) => c`
        flat = bool(ch.get('flat')) and op in ('AND', 'OR', 'IMPLIES', 'EQUIVALENCE') and t['l']['op'] == op
        s = '%s %s %s' % (uvl_expr(t['l'], nm, ch, bare=flat), UVL_OPS[op], uvl_expr(t['r'], nm, ch))
        # every other sub-expression is parenthesised, so nothing depends on precedence
        return s if (bare or (top and not ch['parens'])) else '(%s)' % s
    return '(%s)' % s if (ch['parens'] and op == 'VAR' and not top) else s


def uvl_feature(m, name, nm, ch, depth, out, kmap):
    f = feat(m, name)
    line = '\t' * depth
    if f['ftype'] != 'Boolean' or ch['quote']:
        line += f['ftype'] + ' '
    line += uvl_id(nm.conc(name), ch['quote'])
    if (f['fclo'], f['fchi']) != (1, 1):
        hi = '*' if f['fchi'] == -1 else str(f['fchi'])
        line += ' cardinality [%s]' % (str(f['fclo']) if (str(f['fclo']) == hi and ch['merge']) else '%d..%s' % (f['fclo'], hi))
    attrs = []
    if f['abs']:
        attrs.append('abstract')
    for a in f['attrs']:
        v = untok(a['val'])
        an = uvl_id(nm.conc(a['name']), ch['quote'])
        attrs.append(an if v is None else '%s %s' % (an, uvl_value(v)))
    if attrs:
        line += ' {' + ', '.join(attrs) + '}'
    if ch['comments'] and depth % 2 == 1:
        line += ' // feature ' + str(depth)
    out.append(line)
    rels = kmap.get(name, [])
    i = 0
    while i < len(rels):
        r = rels[i]
        n, lo, hi = len(r['kids']), r['lo'], r['hi']
        group = [r]
        if n == 1 and (lo, hi) in ((1, 1), (0, 1)):
            kw = 'mandatory' if lo == 1 else 'optional'
            if ch['merge']:       # several children under one group keyword
                while i + 1 < len(rels) and len(rels[i + 1]['kids']) == 1 and \
                        (rels[i + 1]['lo'], rels[i + 1]['hi']) == (lo, hi):
                    i += 1
                    group.append(rels[i])
        elif n > 1 and (lo, hi) == (1, 1):
            kw = 'alternative'
        elif n > 1 and (lo, hi) == (1, n):
            kw = 'or'
        else:
            his = '*' if hi == -1 else str(hi)
            kw = '[%d]' % lo if (str(lo) == his and ch['merge']) else '[%d..%s]' % (lo, his)
        out.append('\t' * (depth + 1) + kw)
        for g in group:
            for k in g['kids']:
                uvl_feature(m, k, nm, ch, depth + 2, out, kmap)
        i += 1


def emit_uvl(m, nm, ch):
    out = []
    if ch['header'] == 'namespace':
        out.append('namespace RefModel')
    elif ch['header'] == 'include':
        out += ['include', '\tBoolean.group-cardinality', '\tArithmetic.*', '\tType']
    elif ch['header'] == 'imports':
        out += ['imports', '\tother.sub as Sub', '\tplain']
    elif ch['header'] == 'all':
        out += ['namespace RefModel', 'include', '\tBoolean.*', 'imports', '\tother as O']
    out.append('features')
    uvl_feature(m, m['root'], nm, ch, 1, out, kids_of(m))
    if m['ctcs']:
        out.append('constraints')
        for i, c in enumerate(m['ctcs']):
            line = '\t' + uvl_expr(c['ast'], nm, ch, top=True)
            if ch['comments'] and i % 2 == 0:
                line += ' // constraint %d' % i
            out.append(line)
    text = '\n'.join(out) + '\n'
    return break_uvl(text, out, ch.get('broken', 'none'))


def first_outside_quotes(text, ch):
    quote = ''
    for i, c in enumerate(text):
        if quote:
            if c == quote:
                quote = ''
        elif c in '"\'':
            quote = c
        elif c == '/' and text[i:i + 2] == '//':      # comment: skip to the end of the line
            j = text.find('\n', i)
            return first_outside_quotes_from(text, ch, j) if j >= 0 else -1
        elif c == ch:
            return i
    return -1


def first_outside_quotes_from(text, ch, start):
    r = first_outside_quotes(text[start:], ch)
    return -1 if r < 0 else start + r


def break_uvl(text, lines, how):
    if how == 'none':
        return text
    if how == 'section':          # the features keyword is missing
        return text.replace('features\n', '', 1)
    if how == 'indent':           # a child is indented deeper than any open block allows, then less
        ls = text.split('\n')
        for i, ln in enumerate(ls):
            if ln.startswith('\t\t') and not ln.strip().startswith('//'):
                ls[i] = ' ' + ln.lstrip('\t')      # one space: matches no enclosing indentation level
                return '\n'.join(ls)
        return 'features\n\t\tx\n\ty\n'
    if how == 'bracket':          # an opening bracket is never closed (brackets inside quoted text do not count)
        for closer in '}])':
            i = first_outside_quotes(text, closer)
            if i >= 0:
                return text[:i] + text[i + 1:]
        ls = text.rstrip('\n').split('\n')
        k = next(i for i, ln in enumerate(ls) if ln.strip() == 'features') + 1
        ls[k] = ls[k] + ' {abstract'      # an attribute block that is never closed, on the root feature
        return '\n'.join(ls) + '\n'
    if how == 'badchar':          # a character that is no UVL token at all, in front of a feature name
        ls = text.split('\n')
        for i, ln in enumerate(ls):
            if ln.startswith('\t\t\t'):
                ls[i] = '\t\t\t$' + ln[3:]
                return '\n'.join(ls)
        i = ls.index('features')
        ls[i + 1] = '\t$' + ls[i + 1][1:]
        return '\n'.join(ls)
    if how == 'operator':         # a binary operator without its right operand
        if 'constraints\n' in text:
            return text.rstrip('\n') + ' &\n'
        return text + 'constraints\n\t& x\n'
    raise ValueError(how)


# --------------------------------------------------------------------------- FeatureIDE XML
FIDE_TAGS = {'NOT': 'not', 'AND': 'conj', 'OR': 'disj', 'IMPLIES': 'imp', 'EQUIVALENCE': 'eq'}


def fide_rule(t, nm, ch):
    op = t['op']
    if op == 'VAR':
        return '<var>%s</var>' % escape(nm.conc(t['v']))
    if op == 'REQUIRES':
        op = 'IMPLIES'
    if op == 'EXCLUDES':
        return '<imp>%s<not>%s</not></imp>' % (fide_rule(t['l'], nm, ch), fide_rule(t['r'], nm, ch))
    if op == 'NOT':
        return '<not>%s</not>' % fide_rule(t['l'], nm, ch)
    if op in ('AND', 'OR') and ch['nary']:
        ops = []

        def flat(x):     # a left- or right-nested chain of the same operator is one n-ary rule
            if x['op'] == op:
                flat(x['l'])
                flat(x['r'])
            else:
                ops.append(x)
        flat(t)
        return '<%s>%s</%s>' % (FIDE_TAGS[op], ''.join(fide_rule(x, nm, ch) for x in ops), FIDE_TAGS[op])
    return '<%s>%s%s</%s>' % (FIDE_TAGS[op], fide_rule(t['l'], nm, ch), fide_rule(t['r'], nm, ch), FIDE_TAGS[op])


def emit_fide(m, nm, ch):
    kmap = kids_of(m)
    nl = '\n' if ch['pretty'] else ''
    out = ['<?xml version="1.0" encoding="UTF-8" standalone="no"?>', '<featureModel>']
    if ch['extras']:
        out.append('<properties><graphics key="layout" value="horizontal"/></properties>')
    out.append('<struct>')

    def rec(name, mandatory, is_root, ingroup=False):
        f = feat(m, name)
        rels = kmap.get(name, [])
        if not rels:
            tag = 'feature'
        elif len(rels) == 1 and len(rels[0]['kids']) > 1 and (rels[0]['lo'], rels[0]['hi']) == (1, 1):
            tag = 'alt'
        elif len(rels) == 1 and len(rels[0]['kids']) > 1 and rels[0]['lo'] == 1:
            tag = 'or'
        else:
            tag = 'and'
        attrs = []
        if f['abs']:
            attrs.append(('abstract', 'true'))
        elif ch['optattr'] == 'explicit':
            attrs.append(('abstract', 'false'))
        if mandatory or (ingroup and ch.get('groupmand')):
            # inside an <alt>/<or> group FeatureIDE ignores the attribute; its own editor writes it there at times
            attrs.append(('mandatory', 'true'))
        elif ch['optattr'] == 'explicit' and not is_root:
            attrs.append(('mandatory', 'false'))
        attrs.append(('name', nm.conc(name)))
        if ch['order']:
            attrs.reverse()
        astr = ''.join(' %s=%s' % (k, quoteattr(v)) for k, v in attrs)
        if tag == 'feature':
            if ch['extras']:
                out.append('<feature%s><description>text</description></feature>' % astr)
            else:
                out.append('<feature%s/>' % astr)
            return
        out.append('<%s%s>' % (tag, astr))
        if ch['extras']:
            out.append('<graphics key="collapsed" value="false"/>')
        for r in rels:
            for k in r['kids']:
                rec(k, len(r['kids']) == 1 and (r['lo'], r['hi']) == (1, 1), False, tag in ('alt', 'or'))
        out.append('</%s>' % tag)
    rec(m['root'], False, True)
    out.append('</struct>')
    if m['ctcs'] or not ch['noctc']:
        out.append('<constraints>')
        for c in m['ctcs']:
            g = '<graphics key="x" value="1"/>' if ch['extras'] else ''
            out.append('<rule>%s%s</rule>' % (g, fide_rule(c['ast'], nm, ch)))
        out.append('</constraints>')
    if ch['extras']:
        out.append('<comments/><featureOrder userDefined="false"/>')
    out.append('</featureModel>')
    text = nl.join(out) + '\n'
    if ch.get('broken') == 'unknownrule':      # a rule element the library has no representation for
        text = text.replace('</constraints>', '<rule><atmost1><var>%s</var></atmost1></rule></constraints>'
                            % escape(nm.conc(m['root'])))
        if '<constraints>' not in text:
            text = text.replace('</featureModel>', '<constraints><rule><atmost1><var>%s</var></atmost1></rule>'
                                '</constraints></featureModel>' % escape(nm.conc(m['root'])))
    return text


# --------------------------------------------------------------------------- FaMa XML
def emit_fama(m, nm, ch):
    kmap = kids_of(m)
    nl = '\n' if ch['pretty'] else ''
    out = ['<?xml version="1.0" encoding="UTF-8" standalone="no"?>',
           '<feature-model xmlns:xsi="http://www.w3.org/2001/XMLSchema-instance" '
           'xsi:noNamespaceSchemaLocation="http://www.tdg-seville.info/benavides/featuremodelling/feature-model.xsd">']
    cnt = [0]

    def card(r):
        hi = r['hi']
        if ch['order']:
            return '<cardinality min="%d" max="%d"/>' % (r['lo'], hi)
        return '<cardinality max="%d" min="%d"/>' % (hi, r['lo'])

    def rec(name, tag):
        out.append('<%s name=%s>' % (tag, quoteattr(nm.conc(name))))
        for r in kmap.get(name, []):
            cnt[0] += 1
            rn = ' name="R-%d"' % cnt[0] if ch['relnames'] else ''
            if len(r['kids']) == 1 and not (ch['setsingle'] and False):
                out.append('<binaryRelation%s>' % rn)
                if ch['cardfirst']:
                    out.append(card(r))
                rec(r['kids'][0], 'solitaryFeature')
                if not ch['cardfirst']:
                    out.append(card(r))
                out.append('</binaryRelation>')
            else:
                out.append('<setRelation%s>' % rn)
                if ch['cardfirst']:
                    out.append(card(r))
                for k in r['kids']:
                    rec(k, 'groupedFeature')
                if not ch['cardfirst']:
                    out.append(card(r))
                out.append('</setRelation>')
        out.append('</%s>' % tag)
    rec(m['root'], 'feature')
    for i, c in enumerate(m['ctcs']):
        t = c['ast']
        tag = 'requires' if t['op'] == 'REQUIRES' else 'excludes'
        a, b = nm.conc(t['l']['v']), nm.conc(t['r']['v'])
        attrs = [('name', nm.conc_ctc(c['name'])), ('feature', a), (tag, b)]
        if ch['order']:
            attrs.reverse()
        out.append('<%s%s/>' % (tag, ''.join(' %s=%s' % (k, quoteattr(v)) for k, v in attrs)))
    out.append('</feature-model>')
    text = nl.join(out) + '\n'
    if ch.get('broken') == 'duplicate':        # two features with one name: no tree the library can represent
        first_leaf = next((f['name'] for f in m['feats'] if f['name'] != m['root']), None)
        if first_leaf:
            text = text.replace('name=%s' % quoteattr(nm.conc(first_leaf)), 'name=%s' % quoteattr(nm.conc(m['root'])), 1)
        else:
            text = text.replace('</feature>', '<binaryRelation><cardinality min="1" max="1"/><solitaryFeature name=%s/>'
                                '</binaryRelation></feature>' % quoteattr(nm.conc(m['root'])))
    return text


# --------------------------------------------------------------------------- AFM
AFM_OPS = {'AND': 'AND', 'OR': 'OR', 'IMPLIES': 'IMPLIES', 'REQUIRES': 'REQUIRES', 'EXCLUDES': 'EXCLUDES',
           'EQUIVALENCE': 'IFF'}


def afm_expr(t, nm, ch, top=False):
    op = t['op']
    if op == 'VAR':
        s = nm.conc(t['v'])
        return '(%s)' % s if (ch['parens'] and not top) else s
    if op == 'NOT':
        s = 'NOT ' + afm_expr(t['l'], nm, ch)
    else:
        s = '%s %s %s' % (afm_expr(t['l'], nm, ch), AFM_OPS[op], afm_expr(t['r'], nm, ch))
    return s if (top and not ch['parens']) else '(%s)' % s


def emit_afm(m, nm, ch):
    kmap = kids_of(m)
    out = ['%Relationships']
    order = [f['name'] for f in m['feats'] if f['name'] in kmap]
    if ch['order'] and len(order) > 2:
        order = [order[0]] + order[:0:-1]      # root first, the other parents in reverse order
    for name in order:
        parts = []
        for r in kmap[name]:
            ks = [nm.conc(k) for k in r['kids']]
            if len(ks) == 1 and (r['lo'], r['hi']) == (1, 1):
                parts.append(ks[0])
            elif len(ks) == 1 and (r['lo'], r['hi']) == (0, 1):
                parts.append('[%s]' % ks[0])
            else:
                parts.append('[%d,%d]{%s}' % (r['lo'], r['hi'], ' '.join(ks)))
        out.append('%s : %s;' % (nm.conc(name), ' '.join(parts)))
    if not kmap:
        out.append('%s : ;' % nm.conc(m['root']))
    out.append('')
    out.append('%Attributes')
    for f in m['feats']:
        for a in f['attrs']:
            dom = a['dom']
            rpart, epart = dom.split('|E:')
            if rpart[2:]:
                d = 'Integer ' + ''.join('[%s to %s]' % tuple(x[2:] for x in r.split('..')) for r in rpart[2:].split(';'))
            else:
                d = '[' + ','.join(untok(x) for x in epart.split(',')) + ']'
            out.append('%s.%s: %s,%s,%s;' % (nm.conc(f['name']), nm.conc(a['name']), d, untok(a['val']), untok(a['nul'])))
    out.append('')
    out.append('%Constraints')
    for c in m['ctcs']:
        out.append(afm_expr(c['ast'], nm, ch, top=True) + ';')
    text = '\n'.join(out) + '\n'
    if ch.get('broken') == 'relational':       # a relational constraint: valid AFM the library cannot represent
        text = text + '%s > 3;\n' % nm.conc(m['root'])
    return text


# --------------------------------------------------------------------------- Glencoe JSON
GL_OPS = {'NOT': 'NotTerm', 'AND': 'AndTerm', 'OR': 'OrTerm', 'XOR': 'XorTerm', 'IMPLIES': 'ImpliesTerm',
          'REQUIRES': 'ImpliesTerm', 'EXCLUDES': 'ExcludesTerm', 'EQUIVALENCE': 'EquivalentTerm'}


def emit_glencoe(m, nm, ch):
    kmap = kids_of(m)
    fid = {f['name']: ('id_%d' % i if ch['ids'] else nm.conc(f['name'])) for i, f in enumerate(m['feats'])}
    mandatory = {}
    for r in m['rels']:
        for k in r['kids']:
            mandatory[k] = len(r['kids']) == 1 and (r['lo'], r['hi']) == (1, 1)
    feats = {}
    for f in m['feats']:
        rels = kmap.get(f['name'], [])
        grp = [r for r in rels if len(r['kids']) > 1]
        info = {'name': nm.conc(f['name']), 'optional': not mandatory.get(f['name'], False), 'type': 'FEATURE'}
        if grp:
            r = grp[0]
            n = len(r['kids'])
            if (r['lo'], r['hi']) == (1, 1):
                info['type'] = 'XOR'
            elif (r['lo'], r['hi']) == (1, n):
                info['type'] = 'OR'
            else:
                info['type'] = 'GENOR'
                info['min'], info['max'] = r['lo'], r['hi']
        if ch['extras']:
            info['note'] = 'n'
            info['color'] = '#fff'
            if info['type'] != 'GENOR' and ch['minmax']:
                info['min'], info['max'] = 0, 0      # present but meaningless on non-GENOR entries
        if ch['order']:
            info = dict(reversed(list(info.items())))
        feats[fid[f['name']]] = info

    def tree(name):
        node = {'id': fid[name]}
        kids = [k for r in kmap.get(name, []) for k in r['kids']]
        if ch['order']:
            kids = kids[::-1]
        if kids:
            node['children'] = [tree(k) for k in kids]
        return node

    def term(t):
        if t['op'] == 'VAR':
            return {'type': 'FeatureTerm', 'operands': [fid[t['v']]]}
        if t['op'] in ('AND', 'OR', 'XOR') and ch.get('nary'):
            flat = []

            def walk(x):     # a left-nested chain of the same operator is one n-ary term
                if x['op'] == t['op']:
                    walk(x['l'])
                    flat.append(x['r'])
                else:
                    flat.append(x)
            walk(t)
            return {'type': GL_OPS[t['op']], 'operands': [term(x) for x in flat]}
        ops = [term(t['l'])] + ([term(t['r'])] if t['r']['op'] != 'NIL' else [])
        return {'type': GL_OPS[t['op']], 'operands': ops}
    doc = {'id': 'FM_ref', 'name': 'FM_ref', 'features': feats, 'tree': tree(m['root']),
           'constraints': {nm.conc_ctc(c['name']): term(c['ast']) for c in m['ctcs']}}
    if ch['extras']:
        doc['meta'] = {'tool': 'ref'}
    if ch['order']:
        doc = dict(reversed(list(doc.items())))
    if ch.get('broken') == 'unknowntype':      # a group type the library has no representation for
        gid = next((k for k, v in feats.items() if v['type'] != 'FEATURE'), None)
        if gid is None:
            gid = fid[m['root']]
        feats[gid]['type'] = 'WEIRD'
    return json.dumps(doc, indent=2 if ch.get('pretty', True) else None)


EMITTERS = {'uvl': emit_uvl, 'fide': emit_fide, 'xml': emit_fama, 'afm': emit_afm, 'glencoe': emit_glencoe}
