"""Binding 1 (spec -> code): replay a TLC-generated build history through the
library's public constructors, logging one event per action (DESIGN 5)."""
from flamapy.core.models.ast import AST, ASTOperation, Node
from flamapy.metamodels.fm_metamodel.models import (
    Feature, Relation, Constraint, FeatureModel, Attribute, Cardinality, FeatureType)

from project import project, untok, undomtok


def build_node(t, naming):
    """abstract ast record -> flamapy Node"""
    op = t['op']
    if op == 'NIL':
        return None
    if op == 'VAR':
        return Node(naming.conc(t['v']))
    if op == 'INT':
        return Node(int(t['v']))
    if op == 'NUM':
        return Node(float(t['v']))
    if op == 'STR':
        return Node(t['v'])
    left = build_node(t['l'], naming)
    right = build_node(t['r'], naming)
    return Node(ASTOperation[op], left, right)


class Builder:
    """Executes builder actions; keeps its own name->object table (it never
    relies on the library's lookups, which are under test)."""

    def __init__(self, naming, log=True):
        self.naming = naming
        self.model = None
        self.objs = {}
        self.events = []
        self.log = log
        self.gone = []       # abstract names that were features once and are not any more (removed, renamed away)

    def _event(self, h, out='value'):
        if not self.log:
            return
        post, anom = project(self.model, self.naming)
        self.events.append({'a': h['a'], 'args': {k: v for k, v in h.items() if k != 'a'},
                            'out': out, 'post': post, 'anom': anom})

    def step(self, h):
        """One call of the history.  When events are logged, a call that raises is an event with out = error:<class>
        (judged by C03.build.total); otherwise the exception propagates."""
        out = 'value'
        try:
            self._apply(h)
        except Exception as exc:
            if not self.log or self.model is None:
                raise
            out = 'error:' + type(exc).__name__
        self._event(h, out)

    def _apply(self, h):
        a = h['a']
        nm = self.naming
        if a == 'NewModel':
            root = Feature(nm.conc(h['root']))
            self.objs[h['root']] = root
            self.model = FeatureModel(root)
        elif a == 'AddRelation':
            owner = self.objs[h['o']]
            kids = []
            for k in h['kids']:
                f = Feature(nm.conc(k))
                self.objs[k] = f
                kids.append(f)
            owner.add_relation(Relation(owner, kids, h['lo'], h['hi']))
        elif a == 'SetAbstract':
            self.objs[h['f']].is_abstract = True
        elif a == 'SetType':
            self.objs[h['f']].feature_type = FeatureType(h['t'])
        elif a == 'SetFCard':
            self.objs[h['f']].feature_cardinality = Cardinality(h['lo'], h['hi'])
        elif a == 'AddAttribute':
            self.objs[h['f']].add_attribute(
                Attribute(nm.conc(h['n']), undomtok(h['dom']), untok(h['val']), untok(h['nul'])))
        elif a == 'AddConstraint':
            self.model.ctcs.append(Constraint(nm.conc_ctc(h['n']), AST(build_node(h['ast'], nm))))
        elif a == 'ReplaceConstraint':
            self.model.ctcs[-1].ast = AST(build_node(h['ast'], nm))
        # ---- in-place edits through public attributes and methods
        elif a == 'EditCard':
            rel = self.objs[h['o']].relations[h['ri'] - 1]
            rel.card_min, rel.card_max = h['lo'], h['hi']
        elif a == 'EditAddChild':
            owner = self.objs[h['o']]
            f = Feature(nm.conc(h['n']), parent=owner)
            self.objs[h['n']] = f
            owner.relations[h['ri'] - 1].add_child(f)
        elif a == 'EditRemoveKid':
            rel = self.objs[h['o']].relations[h['ri'] - 1]
            rel.children.remove(self.objs.pop(h['n']))
            self.gone.append(h['n'])
        elif a == 'EditReplaceKid':
            owner = self.objs[h['o']]
            rel = owner.relations[h['ri'] - 1]
            k = rel.children.index(self.objs[h['n']])
            rel.children[k] = self.objs[h['n']] = Feature(nm.conc(h['n']), parent=owner)
        elif a == 'EditMove':
            f = self.objs[h['n']]
            self.objs[h['o']].relations[h['ri'] - 1].children.remove(f)
            target = self.objs[h['o2']]
            target.relations[h['ri2'] - 1].add_child(f)
            f.parent = target
        elif a == 'EditReown':
            old, new = self.objs[h['o']], self.objs[h['o2']]
            rel = old.relations[h['ri'] - 1]
            old.relations.remove(rel)
            if h.get('late'):
                new.add_relation(rel)
                rel.parent = new
            else:
                rel.parent = new
                new.add_relation(rel)
        elif a == 'EditImport':
            sub = Feature('Imported sub-model root')
            self.model.import_model(sub, self.model.root, [Constraint(nm.conc_ctc(c['name']), AST(build_node(c['ast'], nm))) for c in h['ctcs']])
        elif a == 'EditAbstract':
            self.objs[h['f']].is_abstract = not self.objs[h['f']].is_abstract
        elif a == 'EditAttrVal':
            self.objs[h['f']].get_attributes()[h['k'] - 1].set_default_value(untok(h['val']))
        elif a == 'EditAttrName':
            self.objs[h['f']].get_attributes()[h['k'] - 1].set_name(nm.conc(h['n']))
        elif a == 'EditRemoveAttr':
            f = self.objs[h['f']]
            f.set_attributes([x for i, x in enumerate(f.get_attributes()) if i != h['k'] - 1])
        elif a == 'EditRemoveCtc':
            self.model.ctcs.pop(h['i'] - 1)
        elif a == 'EditCtcOp':
            self.model.ctcs[h['i'] - 1].ast.root.data = ASTOperation[h['op']]
        elif a == 'EditRename':
            f = self.objs.pop(h['f'])
            self.gone.append(h['f'])
            f.name = nm.conc(h['n'])
            self.objs[h['n']] = f
        else:
            raise ValueError('unknown builder action ' + a)

    def run(self, hist):
        for h in hist:
            self.step(h)
        return self.model

    def event_for(self, h):
        """Apply one (edit) step and return its event, whatever self.log says.  A step the object graph
        does not admit (the thing it refers to is not there) is an event with out = error:<class>."""
        keep, self.log = self.log, False
        out = 'value'
        try:
            self._apply(h)
        except Exception as exc:
            out = 'error:' + type(exc).__name__
        self.log = keep
        post, anom = project(self.model, self.naming)
        return {'a': h['a'], 'args': {k: v for k, v in h.items() if k != 'a'}, 'out': out, 'post': post, 'anom': anom}


def split_edits(hist):
    """build calls, in-place edit calls"""
    k = next((i for i, h in enumerate(hist) if h['a'].startswith('Edit')), len(hist))
    return hist[:k], hist[k:]


def build(hist, naming, log=False):
    b = Builder(naming, log=log)
    b.run(hist)
    return b.model, b.events


def _perm(seq, how):
    seq = list(seq)
    if how == 'rev':
        return seq[::-1]
    if how == 'rot':
        return seq[1:] + seq[:1]
    return seq


STRATEGY = {   # strategy -> (children, relations per owner, constraints)
    'none': ('', '', ''), 'id': ('', '', ''), 'edit': ('', '', ''),
    'revkids': ('rev', '', ''), 'rotkids': ('rot', '', ''), 'revrels': ('', 'rev', ''),
    'revctcs': ('', '', 'rev'), 'revall': ('rev', 'rev', 'rev'),
    'casectc': ('', '', ''),     # constraints spelled with the letter case of every name swapped
}


def build_from_model(m, naming, strategy='none'):
    """Build an independent object graph for the abstract model m through the
    public constructors, with children / relations / constraints added in the
    order the strategy says."""
    kp, rp, cp = STRATEGY[strategy]
    objs = {}
    for f in m['feats']:
        objs[f['name']] = Feature(naming.conc(f['name']))
    for f in m['feats']:
        o = objs[f['name']]
        if f['abs']:
            o.is_abstract = True
        if f['ftype'] != 'Boolean':
            o.feature_type = FeatureType(f['ftype'])
        if (f['fclo'], f['fchi']) != (1, 1):
            o.feature_cardinality = Cardinality(f['fclo'], f['fchi'])
        for a in f['attrs']:
            o.add_attribute(Attribute(naming.conc(a['name']), undomtok(a['dom']), untok(a['val']), untok(a['nul'])))
    owners = []
    for r in m['rels']:
        if r['owner'] not in owners:
            owners.append(r['owner'])
    for on in owners:
        rels = [r for r in m['rels'] if r['owner'] == on]
        for r in _perm(rels, rp):
            kids = [objs[k] for k in _perm(r['kids'], kp)]
            objs[on].add_relation(Relation(objs[on], kids, r['lo'], r['hi']))
    nm_ctc = naming
    if strategy == 'casectc':
        nm_ctc = CaseSwapped(naming)
    ctcs = [Constraint(naming.conc_ctc(c['name']), AST(build_node(c['ast'], nm_ctc))) for c in _perm(m['ctcs'], cp)]
    return FeatureModel(objs[m['root']], ctcs), objs


class CaseSwapped:
    """A view of a naming that spells every name with swapped letter case (and lets the
    projection map the variant back to the same abstract name)."""

    def __init__(self, naming):
        self.naming = naming

    def conc(self, a):
        c = self.naming.conc(a)
        v = c.swapcase()
        self.naming.rev.setdefault(v, a)
        return v
