#!/venv/bin/python
"""Fresh-interpreter baseline of C19: ONE model per process, every analysis operation on a fresh
object.  Nothing analysed earlier can influence these results, so they are what "depends only on
the model passed to the current execution" is compared against.  Prints the events as JSON."""
import json
import os
import sys

HERE = os.path.dirname(os.path.abspath(__file__))
sys.path.insert(0, HERE)
sys.path.insert(0, os.environ.get('VERIF_REPO', '/repo'))   # default: /repo's working tree

import names  # noqa: E402
import observe  # noqa: E402
import scripts  # noqa: E402


def main():
    case = json.load(open(sys.argv[1]))
    nm = names.Naming(('plain',), 0, int(sys.argv[3]))
    b, ev = scripts.load_event(case, nm)
    events = [ev]
    for k, op in enumerate(sorted(observe.OPS)):
        events.append(scripts._exec_any(observe.new_op(op), 1000 + k, op, b.model, nm, b, 0))
    with open(sys.argv[2], 'w') as f:
        json.dump(events, f)


if __name__ == '__main__':
    main()
