"""Per-property scripts: what the driver does with each generated case
(DESIGN 8).  A script only calls the library and logs; every judgement is made
by the trace specification."""
import random

import names
import observe
from build import Builder

PROPS = {}


def prop(pid, families, **kw):
    def deco(fn):
        PROPS[pid] = dict(kw, families=families, script=fn)
        return fn
    return deco


def ast_tags(t, tags):
    if t.get('op') in (None, 'NIL'):
        return
    if t['op'] not in ('VAR', 'INT', 'NUM', 'STR'):
        tags.add('op:' + t['op'])
    ast_tags(t.get('l', {}), tags)
    ast_tags(t.get('r', {}), tags)


EMPTY_MODEL = {'root': '', 'feats': [], 'rels': [], 'ctcs': []}


def case_tags(case):
    """Coverage facts of a case (evidence only; no verdict depends on them)."""
    if 'ast' in case:
        tags = set()
        ast_tags(case['ast'], tags)
        return sorted(tags)
    m = case['model']
    tags = set()
    for r in m['rels']:
        n, lo, hi = len(r['kids']), r['lo'], r['hi']
        if n == 1:
            tags.add({(1, 1): 'mandatory', (0, 1): 'optional'}.get((lo, hi), 'card1'))
        else:
            tags.add('alternative' if (lo, hi) == (1, 1) else 'or' if (lo, hi) == (1, n)
                     else 'mutex' if (lo, hi) == (0, 1) else 'cardinality')
        if hi == -1:
            tags.add('star')
    owners = [r['owner'] for r in m['rels']]
    if len(owners) != len(set(owners)):
        tags.add('multi-rel-parent')
    if not m['rels']:
        tags.add('root-only')
    if m['ctcs']:
        tags.add('ctc')
    for f in m['feats']:
        if f['abs']:
            tags.add('abstract')
        if f['ftype'] != 'Boolean':
            tags.add('typed')
        if (f['fclo'], f['fchi']) != (1, 1):
            tags.add('fcard')
        if f['attrs']:
            tags.add('attr')
    return sorted(tags)


def mk_trace(pid, cid, k, case, naming, events, extra=None):
    tid = '%s-%s-n%d' % (pid, cid, k)
    meta = {'hist': case.get('hist', []), 'model': case.get('model', EMPTY_MODEL), 'naming': naming.describe(),
            'tags': case_tags(case)}
    if extra:
        meta.update(extra)
    return {'id': tid, 'ev': events}, meta


def namings_for(pid, tier, seed):
    spec = PROPS[pid]
    classes = spec.get('name_classes')
    out = [names.Naming(('plain',), 0, seed)]
    if classes:
        nk = 2 if tier == 'quick' else 6
        for k in range(1, nk + 1):
            out.append(names.Naming(tuple(classes), k, seed))
    return out


def run_case(pid, cid, case, tier, seed):
    spec = PROPS[pid]
    out = []
    for k, nm in enumerate(namings_for(pid, tier, seed)):
        if k > 0 and not spec.get('naming_matters', True):
            break
        nm2 = names.Naming(nm.classes, nm.k, nm.seed)   # fresh table per case
        events, extra = spec['script'](case, nm2, tier, seed)
        out.append(mk_trace(pid, cid, k, case, nm2, events, extra))
    return out


def select_cases(pid, tier, seed, cases):
    spec = PROPS[pid]
    cap = spec.get('cap', {}).get(tier)
    if cap and len(cases) > cap:
        rnd = random.Random(seed)
        idx = sorted(rnd.sample(range(len(cases)), cap))
        PROPS[pid]['_sampled'] = True
        return [cases[i] for i in idx]
    return cases


def coverage(pid, tm):
    tagc = {}
    distinct = set()
    for tr, meta in tm:
        for t in meta.get('tags', []):
            tagc[t] = tagc.get(t, 0) + 1
        if len(meta['model']['feats']) > 1 or meta['model']['ctcs'] or meta.get('ast'):
            distinct.add(repr(meta['hist']) + repr(meta.get('ast')) + repr(meta['naming']['map']))
    return {'nontrivial': len(distinct),
            'rule': 'cases are the reachable states of the TLC builder state machine (spec/FM.tla) '
                    'under the family constants; a case is non-trivial when its model has more than '
                    'one feature or a constraint; distinct = distinct (build history, naming) pairs',
            'detail': {'cases_with_tag': tagc},
            'sampled': bool(PROPS[pid].get('_sampled'))}


# ---------------------------------------------------------------------------
@prop('C03', ['Tree', 'DecorAbs', 'DecorType', 'DecorFCard', 'TreeCtc'], naming_matters=False,
      assumptions=['models are built through Feature/Relation/add_relation/ctcs.append, as in the readers'])
def script_c03(case, naming, tier, seed):
    b = Builder(naming, log=True)
    b.run(case['hist'])
    events = b.events + [observe.query(b.model, naming)]
    return events, None


# ---------------------------------------------------------------------------
def load_event(case, naming):
    b = Builder(naming, log=False)
    b.run(case['hist'])
    from project import project
    post, anom = project(b.model, naming)
    return b, {'a': 'Load', 'args': {'model': case['model']}, 'out': 'value', 'post': post, 'anom': anom}


def ops_script(ops):
    def script(case, naming, tier, seed):
        b, ev = load_event(case, naming)
        events = [ev]
        objid = 0
        for op in ops:
            if op == 'ancestors':
                for name in sorted(b.objs):
                    objid += 1
                    events.append(observe.exec_op(observe.new_op(op), objid, op, b.model, naming, b.objs[name]))
            else:
                objid += 1
                events.append(observe.exec_op(observe.new_op(op), objid, op, b.model, naming))
        return events, None
    return script


SEM_ASSUME = ['Boolean models; constraints purely propositional over feature names',
              'exact counts are brute force over all 2^n selections, n <= family bound']
prop('C13', ['Tree', 'TreeCtc'], naming_matters=False, assumptions=SEM_ASSUME)(ops_script(['estimate']))
prop('C14', ['Tree', 'TreeCtc'], naming_matters=False, assumptions=SEM_ASSUME)(ops_script(['core']))
prop('C15', ['Tree', 'TreeCtc'], naming_matters=False, assumptions=SEM_ASSUME)(ops_script(['atomic']))
prop('C16', ['Tree', 'DecorAbs'], naming_matters=False,
     assumptions=['corpus models above the TLC size bound are judged on scalar summaries only'])(
    ops_script(['leaves', 'count_leaves', 'depth', 'abf', 'varpoints', 'ancestors']))


# ---------------------------------------------------------------------------
@prop('C18', ['Ast', 'AstDeep'], naming_matters=False,
      assumptions=['equivalence is decided by complete truth tables over the atoms of the tree'])
def script_c18(case, naming, tier, seed):
    from flamapy.core.models.ast import AST
    from flamapy.metamodels.fm_metamodel.models import Constraint
    from build import build_node
    ctc = Constraint('c1', AST(build_node(case['ast'], naming)))
    ret = observe.classify(ctc, naming)
    return [{'a': 'Classify', 'args': {'ast': case['ast']}, 'out': 'value', 'ret': ret}], {'ast': case['ast']}
