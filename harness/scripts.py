"""Per-property scripts: what the driver does with each generated case
(DESIGN 8).  A script only calls the library and logs; every judgement is made
by the trace specification."""
import hashlib
import json as _json
import os
import random
import re
import subprocess
import sys

import names
import observe
from build import Builder, split_edits

PROPS = {}


def prop(pid, families, **kw):
    def deco(fn):
        PROPS[pid] = dict(kw, families=families, script=fn)
        return fn
    return deco


def ast_tags(t, tags):
    if t.get('op') in (None, 'NIL'):
        return
    if t['op'] not in ('VAR', 'INT', 'NUM', 'STR'):
        tags.add('op:' + t['op'])
    ast_tags(t.get('l', {}), tags)
    ast_tags(t.get('r', {}), tags)


EMPTY_MODEL = {'root': '', 'feats': [], 'rels': [], 'ctcs': []}


def case_tags(case):
    """Coverage facts of a case (evidence only; no verdict depends on them)."""
    if 'ast' in case:
        tags = set()
        ast_tags(case['ast'], tags)
        return sorted(tags)
    if 'model' not in case:
        return sorted(case.get('tags', []))
    m = case['model']
    tags = set()
    for r in m['rels']:
        n, lo, hi = len(r['kids']), r['lo'], r['hi']
        if n == 1:
            tags.add({(1, 1): 'mandatory', (0, 1): 'optional'}.get((lo, hi), 'card1'))
        else:
            tags.add('alternative' if (lo, hi) == (1, 1) else 'or' if (lo, hi) == (1, n)
                     else 'mutex' if (lo, hi) == (0, 1) else 'cardinality')
        if hi == -1:
            tags.add('star')
        if lo == hi and n > 1 and lo > 1:
            tags.add('card-eq')          # [k..k]: may be written in the short form [k]
        if hi > n:
            tags.add('overhi-group' if n > 1 else 'overhi-single')
    for r in m['rels']:
        if len(r['kids']) >= 10 and r['lo'] >= 2 and r['hi'] >= 10:
            tags.add('wide10')
    owners = [r['owner'] for r in m['rels']]
    if len(owners) != len(set(owners)):
        tags.add('multi-rel-parent')
    for r in m['rels']:       # a group whose owner also has a mandatory child: mandsib-<kind of the group>
        n = len(r['kids'])
        if n > 1 and any(q['owner'] == r['owner'] and len(q['kids']) == 1 and (q['lo'], q['hi']) == (1, 1) for q in m['rels']):
            tags.add('mandsib-' + ('alternative' if (r['lo'], r['hi']) == (1, 1) else 'or' if (r['lo'], r['hi']) == (1, n)
                                   else 'mutex' if (r['lo'], r['hi']) == (0, 1) else 'cardinality'))
    if not m['rels']:
        tags.add('root-only')
    if m['ctcs']:
        tags.add('ctc')
    for f in m['feats']:
        if f['abs']:
            tags.add('abstract')
        if f['ftype'] != 'Boolean':
            tags.add('typed')
        if (f['fclo'], f['fchi']) != (1, 1):
            tags.add('fcard')
            if f['fclo'] == f['fchi']:
                tags.add('fcard-eq')     # cardinality [k..k]: may be written in the short form [k]
        if f['attrs']:
            tags.add('attr')
    return sorted(tags)


def mk_trace(pid, cid, k, case, naming, events, extra=None):
    tid = '%s-%s-n%d' % (pid, cid, k)
    meta = {'hist': case.get('hist', []), 'model': case.get('model', EMPTY_MODEL), 'naming': naming.describe(),
            'tags': case_tags(case)}
    meta['case'] = case          # kept by reference; written out only into replay files
    if 'kind' in case:
        meta['history'] = {k: case[k] for k in ('kind', 'op', 'seq', 'gen') if k in case}
    if extra:
        meta.update(extra)
    return {'id': tid, 'ev': events}, meta


def namings_for(pid, tier, seed, cid):
    """The all-plain naming for every case; each other admissible class names ALL features of a
    case, and is applied to one case in `stride` (so that a finding can be tied to one class)."""
    spec = PROPS[pid]
    classes = spec.get('name_classes') or ()
    out = [(0, names.Naming((spec.get('base_class', 'plain'),), 0, seed))]
    if classes and spec.get('naming_matters', True):
        stride = spec.get('name_stride', {}).get(tier, 4 if tier == 'quick' else 2)
        h = int(hashlib.md5(cid.encode()).hexdigest(), 16)
        for k, cls in enumerate(classes, 1):
            if (h + k) % stride == 0:
                if spec.get('attr_names_too'):
                    out.append((k, names.Naming((cls,), k, seed, attr_classes=(cls,))))
                else:
                    out.append((k, names.Naming((cls,), k, seed)))
    return out


def run_case(pid, cid, case, tier, seed):
    spec = PROPS[pid]
    out = []
    case = dict(case, _cid=cid)
    imports = any(h.get('a') == 'EditImport' for h in case.get('hist', []))
    for k, nm in namings_for(pid, tier, seed, cid):
        if imports and set(nm.classes) & {'casepair', 'afmcase'}:
            continue      # import_model compares constraints by their text without letter case: not what ImportF models
        events, extra = spec['script'](case, nm, tier, seed)
        if events:
            out.append(mk_trace(pid, cid, k, case, nm, events, extra))
    return out


def select_cases(pid, tier, seed, cases):
    spec = PROPS[pid]
    if spec.get('prepare'):
        cases = spec['prepare'](cases, tier, seed)
    cap = spec.get('cap', {}).get(tier, 30000 if tier == 'thorough' else None)
    if cap and len(cases) > cap:
        # keep small families whole, sample the large ones proportionally (seeded)
        byfam = {}
        for cid, c in cases:
            byfam.setdefault(cid.rsplit('-', 1)[0], []).append((cid, c))
        small = [f for f, cs in byfam.items() if len(cs) <= 1500]
        budget = max(0, cap - sum(len(byfam[f]) for f in small))
        large_total = sum(len(cs) for f, cs in byfam.items() if f not in small)
        rnd = random.Random(seed)
        out = []
        for f, cs in byfam.items():
            if f in small:
                out += cs
            else:
                k = max(200, budget * len(cs) // max(1, large_total))
                out += [cs[i] for i in sorted(rnd.sample(range(len(cs)), min(k, len(cs))))]
        PROPS[pid]['_sampled'] = True
        return out
    return cases


def coverage(pid, tm):
    tagc = {}
    distinct = set()
    for tr, meta in tm:
        for t in meta.get('tags', []):
            tagc[t] = tagc.get(t, 0) + 1
        if len(meta['model']['feats']) > 1 or meta['model']['ctcs'] or meta.get('ast') or meta.get('history') \
                or meta.get('nontrivial'):
            distinct.add(repr(meta['hist']) + repr(meta.get('ast')) + repr(meta.get('history'))
                         + repr(meta.get('key')) + repr(meta['naming']['map']))
    return {'nontrivial': len(distinct),
            'rule': 'cases are the reachable states of the TLC builder state machine (spec/FM.tla) '
                    'under the family constants; a case is non-trivial when its model has more than '
                    'one feature or a constraint (for history families: every generated call sequence; for '
                    'tree families of constraints: every tree); distinct = distinct (case, naming) pairs',
            'detail': {'cases_with_tag': tagc, 'reference_pools': POOL_NOTES[-6:]},
            'sampled': bool(PROPS[pid].get('_sampled'))}


# ---------------------------------------------------------------------------
@prop('C03', ['Tree', 'DecorAbs', 'DecorType', 'DecorFCard', 'TreeCtc', 'Mix', 'Ctc3', 'Wide', 'Edit1', 'Edit1s', 'EditWalk'], naming_matters=False,
      assumptions=['models are built through Feature/Relation/add_relation/ctcs.append, as in the readers'])
def script_c03(case, naming, tier, seed):
    build_part, edits = split_edits(case['hist'])
    b = Builder(naming, log=True)
    b.run(build_part)
    events = b.events + [observe.query(b.model, naming)]
    for h in edits:                 # in-place edits: every query is asked again after each of them
        b.step(h)
        events.append(b.events[-1])
        events.append(observe.query(b.model, naming, gone=b.gone))
    return events, None


# ---------------------------------------------------------------------------
def load_event(case, naming):
    """Build the case's model (for an edit history: the model BEFORE the edits) and log it."""
    build_part, edits = split_edits(case['hist'])
    b = Builder(naming, log=False)
    b.run(build_part)
    from project import project
    post, anom = project(b.model, naming)
    return b, {'a': 'Load', 'args': {'model': case['base'] if edits else case['model']}, 'out': 'value', 'post': post, 'anom': anom}


def edits_of(case):
    return split_edits(case['hist'])[1]


def flip_first_relation(case, builder):
    """In-place edit by attribute assignment (no constructor involved): the first relation of the
    root changes its cardinality; returns the abstract model after the edit, or None."""
    m = case['model']
    if not m['rels']:
        return None
    r = m['rels'][0]
    n = len(r['kids'])
    new = (0, 1) if (r['lo'], r['hi']) != (0, 1) else (1, 1)
    if (r['lo'], r['hi']) == new:
        return None
    rel = builder.objs[r['owner']].relations[0]
    rel.card_min, rel.card_max = new
    rels = [dict(r, lo=new[0], hi=new[1])] + m['rels'][1:]
    return dict(m, rels=rels)


def ops_script(ops):
    def script(case, naming, tier, seed):
        b, ev = load_event(case, naming)
        events = [ev]
        objs = []
        objid = 0
        for op in ops:
            if op == 'ancestors':
                for name in sorted(b.objs):
                    objid += 1
                    o = observe.new_op(op)
                    objs.append((o, objid, op, name))
                    events.append(observe.exec_op(o, objid, op, b.model, naming, b.objs[name]))
            else:
                objid += 1
                o = observe.new_op(op)
                objs.append((o, objid, op, None))
                events.append(observe.exec_op(o, objid, op, b.model, naming))
        # in-place edits (edit histories): the SAME model object, edited through public attributes, analysed
        # again by the SAME operation objects and by fresh ones
        for k, h in enumerate(edits_of(case)):
            events.append(b.event_for(h))
            for o, oid, op, name in objs:
                if name is not None and name not in b.objs:
                    continue
                fobj = b.objs[name] if name else None
                events.append(observe.exec_op(o, oid, op, b.model, naming, fobj, seqno=k + 2))
                events.append(observe.exec_op(observe.new_op(op), 900 + oid, op, b.model, naming, fobj, seqno=k + 2))
        # a model a READER built (the library's own document of this model, JSON or UVL in turn): the operations on it
        hh = int(hashlib.md5(repr(case['hist']).encode()).hexdigest(), 16)
        if not edits_of(case) and hh % 4 == 0 and all(f['ftype'] == 'Boolean' for f in case['model']['feats']):
            fmt = 'json' if hh % 8 == 0 else 'uvl'
            wev, path, _ = formats.write_event(fmt, b.model, naming)
            if wev['out'] == 'value':
                rev, model2 = formats.read_event(fmt, path, naming)
                if rev['out'] == 'value' and model2 is not None and not rev['anom']:
                    events += [wev, rev]
                    feats2 = {}
                    stack = [model2.root]
                    while stack:
                        f = stack.pop()
                        feats2[naming.abs(f.name)] = f
                        for r in f.relations:
                            stack.extend(r.children)
                    for o, oid, op, name in objs:
                        if name is not None and name not in feats2:
                            continue
                        events.append(observe.exec_op(observe.new_op(op), 700 + oid, op, model2, naming, feats2[name] if name else None, seqno=9))
            if os.path.exists(path):
                os.remove(path)
            return events, None
        # the SAME model object, edited in place, analysed again by the SAME operation objects
        if not edits_of(case) and hash(repr(case['hist'])) % 3 == 0:
            edited = flip_first_relation(case, b)
            if edited is not None:
                from project import project
                post, anom = project(b.model, naming)
                events.append({'a': 'Load', 'args': {'model': edited}, 'out': 'value', 'post': post, 'anom': anom})
                for o, oid, op, name in objs:
                    events.append(observe.exec_op(o, oid, op, b.model, naming, b.objs[name] if name else None, seqno=2))
        return events, None
    return script


def prepare_chain(cases, tier, seed):
    return list(cases) + [('DeepChain-%05d' % n, {'chain': n, 'tags': ['deepchain']}) for n in ((300, 800) if tier == 'quick' else (100, 300, 800))]


def with_chain(script):
    def wrapped(case, naming, tier, seed):
        if 'groups' in case:
            if naming.k != 0:
                return [], None
            return [observe.exec_wide(case['groups'])], {'key': case['groups'], 'nontrivial': True, 'tags': ['wideleaves']}
        if 'chain' in case:
            return [observe.exec_chain(case['chain'])], {'key': case['chain'], 'nontrivial': True}
        return script(case, naming, tier, seed)
    return wrapped


SEM_ASSUME = ['Boolean models; constraints purely propositional over feature names',
              'exact counts are brute force over all 2^n selections, n <= family bound']
prop('C13', ['Tree', 'TreeStar', 'TreeCtc', 'Big', 'Wide', 'Chain', 'Ctc3', 'Req2', 'DecorAbs', 'Edit1', 'Edit1s', 'EditWalk', 'WideLeaves'], naming_matters=True,
     name_classes=('casepair', 'natural'), name_stride={'quick': 8, 'thorough': 3}, assumptions=SEM_ASSUME,
     prepare=prepare_chain)(with_chain(ops_script(['estimate'])))
prop('C14', ['Tree', 'TreeStar', 'TreeCtc', 'Big', 'Wide', 'Chain', 'Ctc3', 'Req2', 'DecorAbs', 'Edit1', 'Edit1s', 'EditWalk'], naming_matters=True,
     name_classes=('casepair', 'natural'), name_stride={'quick': 8, 'thorough': 3}, assumptions=SEM_ASSUME,
     prepare=prepare_chain)(with_chain(ops_script(['core'])))
prop('C15', ['Tree', 'TreeStar', 'TreeCtc', 'Big', 'Wide', 'Chain', 'Ctc3', 'Req2', 'DecorAbs', 'Edit1', 'Edit1s', 'EditWalk'], naming_matters=True,
     name_classes=('casepair', 'natural'), name_stride={'quick': 8, 'thorough': 3}, assumptions=SEM_ASSUME,
     prepare=prepare_chain)(with_chain(ops_script(['atomic'])))
C16_OPS = ['leaves', 'count_leaves', 'depth', 'abf', 'varpoints', 'ancestors']


def prepare_c16(cases, tier, seed):
    out = prepare_chain(cases, tier, seed)
    for k, (nroot, extra) in enumerate([(29, [1, 1]), (40, [3, 2, 1]), (12, [12, 11, 7]), (100, [1] * 6)]):
        out.append(('Shape-%05d' % k, {'shape': [nroot, extra], 'tags': ['wideshape']}))
    for i, f in enumerate(corpus_files(tier, seed)):
        out.append(('Corpus-%05d' % i, {'corpus': f, 'tags': ['corpus']}))
    return out


def script_c16(case, naming, tier, seed):
    if 'chain' in case:
        return [observe.exec_chain(case['chain'])], {'key': case['chain'], 'nontrivial': True}
    if 'shape' in case:
        return [observe.exec_big(observe.shape_model(*case['shape']), None)], {'key': case['shape'], 'nontrivial': True}
    if 'corpus' not in case:
        return ops_script(C16_OPS)(case, naming, tier, seed)
    ev, model = formats.corpus_event(case['corpus'], None, FULL_BOUND[tier])
    events = [ev]
    if ev['out'] != 'value':
        return events, {'key': case['corpus'], 'nontrivial': True}
    if ev['args']['full']:
        nm = names.identity_naming()
        nm.abs = formats.project_name
        objid = 0
        feats = []
        stack = [model.root]
        while stack:
            f = stack.pop()
            feats.append(f)
            for r in f.relations:
                stack.extend(r.children)
        for op in C16_OPS:
            targets = [None] if op != 'ancestors' else [feats[0], feats[-1], feats[len(feats) // 2]]
            for t in targets:
                objid += 1
                events.append(observe.exec_op(observe.new_op(op), objid, op, model, nm, t))
    else:
        events.append(observe.exec_big(model, None))
    return events, {'key': case['corpus'], 'nontrivial': True}


# ---------------------------------------------------------------------------
@prop('C18', ['Ast', 'AstDeep', 'AstNNF', 'AstNeg'], name_classes=('casepair',), naming_matters=True, name_stride={'quick': 8, 'thorough': 2},
      assumptions=['equivalence is decided by complete truth tables over the atoms of the tree'])
def script_c18(case, naming, tier, seed):
    from flamapy.core.models.ast import AST
    from flamapy.metamodels.fm_metamodel.models import Constraint
    from build import build_node
    ctc = Constraint('c1', AST(build_node(case['ast'], naming)))
    ret = observe.classify(ctc, naming)
    return [{'a': 'Classify', 'args': {'ast': case['ast']}, 'out': 'value', 'ret': ret}], {'ast': case['ast']}


# ---------------------------------------------------------------------------
METRIC_METHODS = [
    'features', 'abstract_features', 'concrete_features', 'leaf_features', 'compound_features',
    'concrete_compound_features', 'concrete_leaf_features', 'abstract_compound_features',
    'abstract_leaf_features', 'tree_relationships', 'root_feature', 'top_features', 'solitary_features',
    'grouped_features', 'mandatory_features', 'optional_features', 'feature_groups', 'alternative_groups',
    'or_groups', 'mutex_groups', 'cardinality_groups', 'branching_factor', 'min_children_per_feature',
    'max_children_per_feature', 'avg_children_per_feature', 'depth_tree', 'max_depth_tree', 'mean_depth_tree',
    'median_depth_tree', 'cross_tree_constraints', 'simple_constraints', 'requires_constraints',
    'excludes_constraints', 'complex_constraints', 'pseudo_complex_constraints', 'strict_complex_constraints',
    'min_constraints_per_feature', 'max_constraints_per_feature', 'avg_constraints_per_feature',
    'extra_constraint_representativeness']


@prop('C17', ['Tree', 'DecorAbs', 'TreeCtc', 'Mix', 'Ctc3', 'Wide', 'Chain', 'Deep-Ctc', 'C12-Deep', 'Edit1', 'Edit1s', 'EditWalk'], name_classes=('substr',), naming_matters=True, name_stride={'quick': 5, 'thorough': 2},
      assumptions=['constraint listings are compared with the per-constraint predicates of the model (judged by C18)'])
def script_c17(case, naming, tier, seed):
    b, ev = load_event(case, naming)
    obj = observe.new_op('metrics')
    events = [ev, observe.exec_metrics(obj, 1, b.model, naming)]
    if len(case['hist']) % 3 == 0:      # the same object analyses the model again
        events.append(observe.exec_metrics(obj, 1, b.model, naming, seqno=2))
    # one filtered report per case: the filter rotates over singletons, pairs and a random subset
    rnd = random.Random(hash(repr(case['hist'])) ^ seed)
    k = rnd.randrange(4)
    if k == 0:
        flt = []
    elif k == 1:
        flt = [rnd.choice(METRIC_METHODS)]
    elif k == 2:
        flt = list(METRIC_METHODS)
    else:
        flt = rnd.sample(METRIC_METHODS, rnd.randrange(2, 12))
    fobj = observe.new_op('metrics')
    mine = list(flt)                      # the caller's own filter list: handed in once, the object executed twice
    events.append(observe.exec_metrics(fobj, 2, b.model, naming, flt=flt, caller_list=mine))
    if len(case['hist']) % 2 == 0:
        events.append(observe.exec_metrics(fobj, 2, b.model, naming, flt=flt, seqno=2, apply_filter=False))
        # ... and another object given the caller's list afterwards
        events.append(observe.exec_metrics(observe.new_op('metrics'), 5, b.model, naming, flt=flt, caller_list=mine))
    for k, h in enumerate(edits_of(case)):      # in-place edits: the same FMMetrics object again, and a fresh one
        events.append(b.event_for(h))
        events.append(observe.exec_metrics(obj, 1, b.model, naming, seqno=k + 3))
        events.append(observe.exec_metrics(observe.new_op('metrics'), 3 + k, b.model, naming))
    return events, None


# ---------------------------------------------------------------------------
# Histories on operation objects (C19)
POOL_PICKS = [
    lambda t, m: 'root-only' in t,
    lambda t, m: {'mandatory', 'optional', 'or'} <= set(t) and len(m['feats']) == 5,
    lambda t, m: 'alternative' in t and 'ctc' in t and 'optional' in t and m['ctcs'][0]['ast']['op'] == 'IMPLIES',
    lambda t, m: {'mutex', 'cardinality'} <= set(t),
    lambda t, m: len(m['rels']) == 4 and all(len(r['kids']) == 1 for r in m['rels'])
    and len({r['owner'] for r in m['rels']}) == 4 and 'optional' in t and 'mandatory' in t,
    lambda t, m: 'attr' in t and len(m['feats']) == 3 and sum(1 for f in m['feats'] if f['attrs']) == 1
    and 'optional' in t and any(a['val'] == 'i:7' for f in m['feats'] for a in f['attrs']),
    lambda t, m: 'attr' in t and len(m['feats']) == 3 and sum(1 for f in m['feats'] if f['attrs']) == 2
    and any(a['val'] == 'n' for f in m['feats'] for a in f['attrs']),     # an attribute whose value is None
]


def prepare_hist(cases, tier, seed):
    pool = []
    models = [(cid, c) for cid, c in cases if 'model' in c and 'base' not in c]
    for pick in POOL_PICKS:
        for cid, c in models:
            if pick(case_tags(c), c['model']):
                pool.append(c)
                break
        else:
            raise RuntimeError('no pool model for pick %d' % len(pool))
    # pool models 8..10: models 2..4 after an in-place edit (one more optional child under the root)
    for base in pool[1:4]:
        m = base['model']
        new = 'f%d' % (len(m['feats']) + 1)
        feat = {'name': new, 'par': m['root'], 'abs': False, 'ftype': 'Boolean', 'fclo': 1, 'fchi': 1, 'attrs': []}
        rel = {'owner': m['root'], 'pp': m['root'], 'kids': [new], 'lo': 0, 'hi': 1}
        pool.append({'hist': base['hist'] + [{'a': 'AddRelation', 'o': m['root'], 'kids': [new], 'lo': 0, 'hi': 1}],
                     'model': dict(m, feats=m['feats'] + [feat], rels=m['rels'] + [rel]), 'edit_of': pool.index(base) + 1})
    # isolated baselines: one fresh interpreter per pool model
    iod = os.environ.get('VERIF_IODIR', '/verif/.work/io')
    os.makedirs(iod, exist_ok=True)
    procs = []
    for i, m in enumerate(pool):
        cp, op_ = os.path.join(iod, 'iso%d.json' % i), os.path.join(iod, 'iso%d.out.json' % i)
        with open(cp, 'w') as f:
            _json.dump({'hist': m['hist'], 'model': m['model']}, f)
        procs.append((op_, subprocess.Popen([sys.executable, os.path.join(os.path.dirname(os.path.abspath(__file__)),
                                                                             'isolated_ops.py'), cp, op_, str(seed)],
                                            stdout=subprocess.DEVNULL, stderr=subprocess.PIPE)))
    iso = []
    for op_, p in procs:
        _, err = p.communicate()
        if p.returncode != 0:
            raise RuntimeError('isolated baseline failed: ' + err.decode(errors='replace')[-2000:])
        iso.append(_json.load(open(op_)))
    out = []
    for cid, c in cases:
        if 'base' in c:          # edit histories: every operation before and after in-place edits
            out.append((cid, dict(c, tags=['hist:edit'])))
            continue
        if cid.rsplit('-', 1)[0] in ('TreeStar', 'DecorAbs', 'Deep-Ctc', 'C12-Deep'):    # every operation, twice on one object, on [a..*] / abstract / deep-constraint models
            if int(hashlib.md5(cid.encode()).hexdigest(), 16) % (3 if tier == 'quick' else 1) == 0 or cid.startswith('C12-Deep'):
                out.append((cid, dict(c, allops=True, tags=['hist:allops'] + case_tags(c))))
            continue
        if 'model' in c:
            continue
        if c['kind'] == 'exec' and not c['seq']:
            continue
        c = dict(c, pool=pool, iso=iso, tags=['hist:' + c['kind'], 'op:' + c['op'], 'len:%d' % len(c['seq'])]
                 + (['shape:' + c['gen']['shape']] if c['kind'] == 'genattr' else []))
        out.append((cid, c))
    return out


def _exec_any(obj, objid, op, model, naming, builder, seqno):
    if op == 'metrics':
        return observe.exec_metrics(obj, objid, model, naming, seqno=seqno)
    fobj = None
    if op == 'ancestors':
        fobj = builder.objs[sorted(builder.objs, key=lambda n: int(n[1:]))[-1]]
    return observe.exec_op(obj, objid, op, model, naming, fobj, seqno=seqno)


@prop('C19', ['Tree', 'TreeCtc', 'DecorAttr', 'Hist', 'Edit1', 'Edit1s', 'EditWalk', 'TreeStar', 'DecorAbs', 'Deep-Ctc', 'C12-Deep'], naming_matters=False, prepare=prepare_hist,
      assumptions=['"depends only on its argument" is checked as: over one history, equal (operation, argument, model) '
                   'give equal results whichever object is used and whatever it analysed before'])
def script_c19(case, naming, tier, seed):
    ALL_OPS = ['estimate', 'core', 'atomic', 'leaves', 'count_leaves', 'depth', 'abf', 'varpoints', 'ancestors']
    if 'base' in case:
        evs, _ = ops_script(ALL_OPS)(case, naming, tier, seed)
        return evs, {'history': {'kind': 'edit', 'edits': [h['a'] for h in edits_of(case)]}}
    if case.get('allops'):
        b, ev = load_event(case, naming)
        events = [ev]
        for k, op in enumerate(ALL_OPS + ['metrics']):
            o = observe.new_op(op)
            events.append(_exec_any(o, k + 1, op, b.model, naming, b, 1))
            events.append(_exec_any(o, k + 1, op, b.model, naming, b, 2))
        # a filtered report: the caller's own list handed in once, the object executed twice, then another object given the same list
        flt = ['leaf_features', 'depth_tree', 'or_groups']
        mine = list(flt)
        fobj = observe.new_op('metrics')
        events.append(observe.exec_metrics(fobj, 40, b.model, naming, flt=flt, caller_list=mine, with_agree=False))
        events.append(observe.exec_metrics(fobj, 40, b.model, naming, flt=flt, seqno=2, apply_filter=False, with_agree=False))
        events.append(observe.exec_metrics(observe.new_op('metrics'), 41, b.model, naming, flt=flt, caller_list=mine, with_agree=False))
        return events, {'history': {'kind': 'allops'}}
    pool = case['pool']
    events = []
    if case['kind'] == 'genattr':
        g = case['gen']
        b, ev = load_event(pool[g['model'] - 1], naming)
        events.append(ev)
        events.append(observe.gen_attr(b.model, naming, 'a1', g['shape'], g['leaves'], g['seed']))
        if g['shape'] != 'unset':   # a second generation on the same model: every feature already has it
            events.append(observe.gen_attr(b.model, naming, 'a1', g['shape'], False, g['seed'] + 1))
            # ... and a third without a domain: nothing is left to generate, the missing domain is still an error
            events.append(observe.gen_attr(b.model, naming, 'a1', 'unset', False, g['seed'] + 2))
        return events, None
    op = case['op']
    built = {}
    for i in sorted(set(case['seq'])):
        # baseline 1: the isolated results (fresh interpreter, this model only)
        events.extend(e for e in case['iso'][i - 1] if e['a'] == 'Load' or e['args']['op'] == op)
        # baseline 2: a fresh object in this process
        b, ev = load_event(pool[i - 1], naming)
        built[i] = (b, ev)
        events.append(ev)
        events.append(_exec_any(observe.new_op(op), 100 + i, op, b.model, naming, b, 0))
    shared = observe.new_op(op)                              # the history on ONE object
    other_kind = 'atomic' if op != 'atomic' else 'core'
    other = observe.new_op(other_kind)
    live = {}                                                # model objects analysed so far in the history
    for k, i in enumerate(case['seq']):
        base = pool[i - 1].get('edit_of')
        if base and base in live:
            # the SAME model object that was analysed before, edited in place
            b = live[base]
            h = pool[i - 1]['hist'][-1]
            b.step(h)
            from project import project
            post, anom = project(b.model, naming)
            ev = {'a': 'Load', 'args': {'model': pool[i - 1]['model']}, 'out': 'value', 'post': post, 'anom': anom}
            live[i] = b
            del live[base]
        elif i in live:
            b = live[i]
            ev = dict(built[i][1])
        else:
            b, ev = load_event(pool[i - 1], naming)
            live[i] = b
        events.append(ev)
        events.append(_exec_any(other, 2, other_kind, b.model, naming, b, k + 1))
        events.append(_exec_any(shared, 1, op, b.model, naming, b, k + 1))
    return events, None


# ---------------------------------------------------------------------------
@prop('C20', ['Eq', 'Eq2', 'Eq3', 'Edit1', 'Edit1s', 'EditWalk'], name_classes=('plain', 'afmword', 'space', 'natural', 'casepair'), naming_matters=True,
      assumptions=['names never differ only in letter case (the one situation where the statement allows either answer)',
                   'features carry no attributes in this family; equality ignores them'])
def script_c20(case, naming, tier, seed):
    from build import build_from_model
    if naming.classes == ('casepair',) and (case['model']['ctcs'] or case.get('other', {}).get('ctcs') or case.get('base', {}).get('ctcs')
                                            or any(h['a'] in ('EditImport', 'AddConstraint') for h in case['hist'])):
        return [], None      # constraints that differ in letter case only: the statement allows either answer
    if edits_of(case):
        # edit history: compare (and hash) before the edits, edit in place, compare with the old twin and with
        # an independently built copy of the new state
        noedit = {'k': 'history', 'i': 0, 'j': 0, 'x': '', 'lo': 0, 'hi': 0}
        b, ev = load_event(case, naming)
        twin0, _ = build_from_model(case['base'], naming, 'revall')
        events = [ev, {'a': 'Other', 'args': {'model': case['base']}, 'out': 'value'},
                  observe.compare(b.model, twin0, naming, 'revall', noedit)]
        for h in edits_of(case):
            events.append(b.event_for(h))
            events.append(observe.compare(b.model, twin0, naming, 'edit', noedit))
        twin1, _ = build_from_model(case['model'], naming, 'revall')
        events += [{'a': 'Other', 'args': {'model': case['model']}, 'out': 'value'},
                   observe.compare(b.model, twin1, naming, 'revall', noedit)]
        return events, {'key': ['edit-history'], 'nontrivial': True}
    b, ev = load_event(case, naming)
    other, _ = build_from_model(case['other'], naming, case['how'])
    events = [ev, {'a': 'Other', 'args': {'model': case['other']}, 'out': 'value'},
              observe.compare(b.model, other, naming, case['how'], case['edit'])]
    return events, {'key': [case['how'], case['edit']], 'nontrivial': True}


# ---------------------------------------------------------------------------
# Round trips (C01, C05-C08)
import formats  # noqa: E402


# name classes every format of a chain can carry (the chain is skipped under any other naming)
CHAIN_CLASSES = {'uvl': {'plain', 'casepair', 'nonnfc', 'space', 'edgespace', 'nearsame', 'long', 'numeric', 'punct', 'uvlkw', 'opword', 'digit0', 'under0',
                         'nonascii', 'afmword'},
                 'afm': {'afmword'}}


def chain_source(cid):
    """'x-<a>-<b>-...' -> a, else None"""
    return cid.split('-')[1] if cid.startswith('x-') else None


def roundtrip_script(fmt):
    def script(case, naming, tier, seed):
        src = chain_source(case.get('_cid', ''))
        if src:
            if 'afm' in (src, fmt):
                if naming.k != 0:
                    return [], None
                naming = names.Naming(('afmword',), 0, naming.seed)
            for f in (src, fmt):
                if f in CHAIN_CLASSES and not set(naming.classes) <= CHAIN_CLASSES[f]:
                    return [], None
        b, ev = load_event(case, naming)
        events = [ev]
        model = b.model
        if edits_of(case):
            # edit history: the model is written once, edited in place, and is then the source of the cycles
            wev, path, _ = formats.write_event(fmt, model, naming)
            events.append(wev)
            if os.path.exists(path):
                os.remove(path)
            for h in edits_of(case):
                events.append(b.event_for(h))
            from project import project
            post, anom = project(model, naming)
            events.append({'a': 'Rebase', 'args': {'from': 'edit', 'to': fmt}, 'out': 'value', 'post': post, 'anom': anom})
        if src:
            # cross-format chain: write and read with the source format; the model ITS reader built
            # is the source of this format's history
            wev, path, _ = formats.write_event(src, model, naming)
            events.append(wev)
            if wev['out'] != 'value':
                return events, {'key': ['chain', src, fmt], 'naming': naming.describe()}
            rev, model = formats.read_event(src, path, naming)
            events.append(rev)
            os.remove(path)
            if rev['out'] != 'value' or model is None or rev['anom']:
                return events, {'key': ['chain', src, fmt], 'naming': naming.describe()}
            from project import project
            post, anom = project(model, naming)
            events.append({'a': 'Rebase', 'args': {'from': src, 'to': fmt}, 'out': 'value', 'post': post, 'anom': anom})
        cycles = 3 if tier == 'quick' else 4
        for k in range(cycles):
            wev, path, _ = formats.write_event(fmt, model, naming)
            events.append(wev)
            if wev['out'] != 'value':
                break
            if fmt == 'json':
                events.append(formats.parse_json_event(path, naming))
            rev, model2 = formats.read_event(fmt, path, naming)
            events.append(rev)
            os.remove(path)
            if rev['out'] != 'value' or model2 is None:
                break
            model = model2
        return events, ({'key': ['chain', src, fmt], 'naming': naming.describe()} if src else None)
    return script


ALL_NAME_CLASSES = ('casepair', 'space', 'edgespace', 'nearsame', 'nonnfc', 'long', 'numeric', 'punct', 'uvlkw', 'opword', 'digit0', 'under0', 'nonascii', 'quote', 'dot', 'apos')


def fam_names(fmt):
    import families
    return [k for k in families.FAMILIES if k.startswith(fmt + '-') or (k.startswith('x-') and k.split('-')[2] == fmt)]


prop('C05', fam_names('json'), name_classes=ALL_NAME_CLASSES, naming_matters=True,
     assumptions=['attribute values are JSON-representable: None, bool, int, float, str, list, string-keyed map'])(
    roundtrip_script('json'))

prop('C08', fam_names('glencoe'), name_classes=ALL_NAME_CLASSES, naming_matters=True,
     assumptions=['constraints have distinct names (the format keys them by name)'])(roundtrip_script('glencoe'))
prop('C07', fam_names('fide'), name_classes=ALL_NAME_CLASSES, naming_matters=True,
     assumptions=['names are XML-representable: no control characters'])(roundtrip_script('fide'))
prop('C06', fam_names('afm'), name_classes=('afmword', 'afmcase', 'afmkw'), base_class='afmword', naming_matters=True,
     name_stride={'quick': 3, 'thorough': 1},
     assumptions=['names match the AFM WORD token; attribute names the LOWERCASE token; enumerated domain elements, '
                  'default and null values are text tokens; range bounds are integers'])(roundtrip_script('afm'))
UVL_NAME_CLASSES = ('casepair', 'nonnfc', 'space', 'edgespace', 'nearsame', 'long', 'numeric', 'punct', 'uvlkw', 'opword', 'digit0', 'under0', 'nonascii')
prop('C01', fam_names('uvl'), name_classes=UVL_NAME_CLASSES, naming_matters=True, name_stride={'quick': 4, 'thorough': 3},
     assumptions=['names carry no double quote, dot or newline; strings no apostrophe; floats have a plain decimal repr'])(
    roundtrip_script('uvl'))


# ---------------------------------------------------------------------------
# Serialisation: purity, determinism, returned text (C12)
import json as _json  # noqa: E402
import subprocess  # noqa: E402
import sys  # noqa: E402

ALL_WRITERS = ['uvl', 'afm', 'json', 'glencoe', 'fide', 'splot', 'clafer', 'pl']
READABLE = ['uvl', 'json', 'glencoe', 'fide']


def env_matrix(tier):
    seeds = ['0', '1', '2'] if tier == 'quick' else [str(i) for i in range(8)]
    locs = [('C', '0')] if tier == 'quick' else [('C', '0'), ('POSIX', '0'), ('C.UTF-8', '1'), ('C', '1')]
    out = []
    for hs in seeds:
        for lc, u8 in locs:
            out.append({'PYTHONHASHSEED': hs, 'LC_ALL': lc, 'LANG': lc, 'PYTHONUTF8': u8})
    if tier == 'quick':
        out.append({'PYTHONHASHSEED': '3', 'LC_ALL': 'POSIX', 'LANG': 'POSIX', 'PYTHONUTF8': '0'})
        out.append({'PYTHONHASHSEED': '4', 'LC_ALL': 'C.UTF-8', 'LANG': 'C.UTF-8', 'PYTHONUTF8': '1'})
    return out


def prepare_c12(cases, tier, seed):
    """Run the fresh-interpreter legs once for all cases (one process per environment)."""
    iod = os.environ.get('VERIF_IODIR', '/verif/.work/io')
    os.makedirs(iod, exist_ok=True)
    cpath = os.path.join(iod, 'c12cases.ndjson')
    with open(cpath, 'w') as f:
        for cid, c in cases:
            for k, nm in namings_for('C12', tier, seed, cid):
                f.write(_json.dumps({'cid': cid, 'k': k, 'hist': c['hist'], 'writers': ALL_WRITERS,
                                     'naming': {'classes': list(nm.classes), 'k': nm.k, 'seed': nm.seed}}) + '\n')
    envs = env_matrix(tier)
    procs = []
    for i, env in enumerate(envs):
        e = dict(os.environ)
        e.update(env)
        e['VERIF_IODIR'] = os.path.join(iod, 'env%d' % i)
        out = os.path.join(iod, 'c12env%d.ndjson' % i)
        procs.append((i, out, subprocess.Popen(
            [sys.executable, os.path.join(os.path.dirname(os.path.abspath(__file__)), 'envwriter.py'),
             cpath, out, 'env%d' % i], env=e, stdout=subprocess.DEVNULL, stderr=subprocess.PIPE)))
    byenv = {}
    for i, out, p in procs:
        _, err = p.communicate()
        if p.returncode != 0:
            raise RuntimeError('environment leg %d failed: %s' % (i, err.decode(errors='replace')[-2000:]))
        with open(out) as f:
            for line in f:
                r = _json.loads(line)
                byenv.setdefault((r['cid'], r['k']), []).append((i, r['ev']))
    res = []
    for cid, c in cases:
        c = dict(c, env_events={k: [ev for _, evs in sorted(v) for ev in evs]
                                for (cc, k), v in byenv.items() if cc == cid},
                 envs=envs)
        res.append((cid, c))
    return res


@prop('C12', ['C12-Tree', 'C12-Ctc', 'C12-Ctc2', 'C12-Attr', 'C12-Edit1', 'C12-Edit1s', 'C12-EditWalk', 'C12-Deep'], name_classes=('nonascii', 'space', 'nonnfc'), naming_matters=True,
      name_stride={'quick': 2, 'thorough': 1}, prepare=prepare_c12,
      assumptions=['the environment matrix (hash seeds x locale x PYTHONUTF8) is sampled, not exhaustive',
                   'purity is judged on the projected object graph'])
def script_c12(case, naming, tier, seed):
    b, ev = load_event(case, naming)
    events = [ev]
    from build import build_from_model

    def write_all(m, env=None):
        for fmt in ALL_WRITERS:
            wev, path, _ = formats.write_event(fmt, m, naming)
            if env:
                wev['args']['env'] = env
            events.append(wev)
            if os.path.exists(path):
                os.remove(path)

    if edits_of(case):
        # edit history: every writer before the edits, after them, and on an independently built copy of the result
        write_all(b.model, 'before-edit')
        for h in edits_of(case):
            events.append(b.event_for(h))
        write_all(b.model, 'after-edit')
        twin, _ = build_from_model(case['model'], naming, 'none')
        write_all(twin, 'fresh-copy')
    else:
        if len(case['model']['feats']) > 2:        # an independently built, child-permuted twin is serialised first
            twin, _ = build_from_model(case['model'], naming, 'revkids')
            for fmt in ALL_WRITERS:
                wev, path, _ = formats.write_event(fmt, twin, naming)
                if os.path.exists(path):
                    os.remove(path)
            events.append({'a': 'WriteOther', 'args': {'how': 'revkids'}, 'out': 'value'})
        for rep in range(3):                       # repeated calls on the same model object
            for fmt in ALL_WRITERS:
                wev, path, _ = formats.write_event(fmt, b.model, naming)
                wev['args']['env'] = 'inproc%d' % rep
                events.append(wev)
                if rep == 0 and fmt in READABLE and wev['out'] == 'value':
                    rev, _ = formats.read_event(fmt, path, naming, action='ReadBack')
                    events.append(rev)
                if os.path.exists(path):
                    os.remove(path)
    k = next(i for i, (kk, nm) in enumerate(namings_for('C12', tier, seed, case['_cid'])) if nm.classes == naming.classes)
    kk = namings_for('C12', tier, seed, case['_cid'])[k][0]
    events.extend(case['env_events'].get(kk, []))      # fresh interpreters: the final model under each environment
    return events, {'envs': len(case['envs'])}


# ---------------------------------------------------------------------------
# Exports as programs (C10, C11)
def export_script(langs):
    def script(case, naming, tier, seed):
        b, ev = load_event(case, naming)
        events = [ev] + [formats.export_event(lang, b.model, naming) for lang in langs]
        for h in edits_of(case):        # in-place edits: exported again after each
            events.append(b.event_for(h))
            events += [formats.export_event(lang, b.model, naming) for lang in langs]
        return events, None
    return script


prop('C10', ['Tree', 'TreeCtc', 'Clafer-Ctc2', 'Deep-Ctc', 'Wide', 'Ctc3', 'Req2', 'Edit1', 'Edit1s', 'EditWalk'], naming_matters=True,
     name_classes=('casepair',), name_stride={'quick': 4, 'thorough': 2},
     assumptions=['the .exp precedence is not < and < or < -> < <->, binary connectives left-associative',
                  'SXFM identifiers may be bare words or double-quoted strings'],
     trusted=['harness/parse_export.py (syntax of SXFM and .exp only)'])(export_script(['splot', 'pl']))
prop('C11', ['Clafer-Tree', 'Clafer-Ctc', 'Clafer-Ctc2', 'Deep-Ctc', 'Clafer-Attr', 'Wide', 'Ctc3', 'Req2', 'Edit1', 'Edit1s', 'EditWalk'], name_classes=('space', 'punct', 'opword', 'dot', 'casepair'), naming_matters=True,
     attr_names_too=True,
     assumptions=['both ! and not are accepted as Clafer negation', 'identifiers may be bare words or double-quoted strings'],
     trusted=['harness/parse_export.py (syntax of the Clafer subset only)'])(export_script(['clafer']))


# ---------------------------------------------------------------------------
# Independent reference documents (C04, C09)
POOL_NOTES = []      # coverage of the reference pools of this run (reported in the evidence)


def pick_pool(cases, wanted_tags, size):
    """Reference models: greedy maximum coverage of the wanted tags (ties: smaller model, then
    generation order), then the largest remaining models."""
    models = [c for cid, c in cases if 'model' in c and 'ch' not in c]
    tagsets = [(set(case_tags(c)) | ctc_tags(c)) & set(wanted_tags) for c in models]
    pool, chosen, covered = [], set(), set()
    while len(pool) < size:
        best, gain = None, 0
        for i, ts in enumerate(tagsets):
            if i in chosen:
                continue
            g = len(ts - covered)
            if g > gain or (g == gain and g > 0 and len(models[i]['model']['feats']) < len(models[best]['model']['feats'])):
                best, gain = i, g
        if best is None or gain == 0:
            break
        chosen.add(best)
        covered |= tagsets[best]
        pool.append(models[best])
    rest = sorted((i for i in range(len(models)) if i not in chosen),
                  key=lambda i: (-len(tagsets[i]), -len(models[i]['model']['feats']), i))
    for i in rest:
        if len(pool) >= size:
            break
        pool.append(models[i])
    missing = set(wanted_tags) - covered
    POOL_NOTES.append({'wanted': len(wanted_tags), 'missing': sorted(missing), 'size': len(pool)})
    if not pool or len(missing) > len(wanted_tags) // 3:
        raise RuntimeError('reference pool does not cover: %s' % sorted(missing))
    return pool


def _nary(t):
    if t.get('op') in (None, 'NIL', 'VAR', 'INT', 'NUM', 'STR'):
        return False
    if t['op'] in ('AND', 'OR') and (t['l'].get('op') == t['op'] or t['r'].get('op') == t['op']):
        return True
    return _nary(t['l']) or _nary(t['r'])


def _chainlen(t):
    if t.get('op') not in ('AND', 'OR', 'XOR'):
        return 1
    n, x = 1, t
    while x.get('op') == t['op']:
        n += 1
        x = x['l']
    return n


def _nest_tags(t, tags):
    """which operator stands directly under which (and-in-or, or-in-and, not-in-not, ...): the nestings a reader
    or writer may flatten, reorder or un-parenthesise.  A binary inner node counts only when it joins two DIFFERENT
    names: `(a & a) | a` means the same flattened or not, so it would cover the tag without testing anything."""
    if t.get('op') in (None, 'NIL', 'VAR', 'INT', 'NUM', 'STR'):
        return
    for side in ('l', 'r'):
        k = t.get(side, {})
        if k.get('op') not in (None, 'NIL', 'VAR', 'INT', 'NUM', 'STR'):
            kl, kr = k.get('l', {}), k.get('r', {})
            unary = kr.get('op') in (None, 'NIL')
            if unary or (kl.get('op') == 'VAR' and kr.get('op') == 'VAR' and kl.get('v') != kr.get('v')):
                tags.add('%s-in-%s' % (k['op'].lower(), t['op'].lower()))
            _nest_tags(k, tags)


def _shape(t):
    if t.get('op') in (None, 'NIL'):
        return 'nil'
    if t['op'] == 'VAR':
        return 'x'
    return '(%s %s %s)' % (t['op'], _shape(t.get('l', {})), _shape(t.get('r', {})))


def ctc_tags(c):
    tags = set()
    asts = [k['ast'] for k in c['model']['ctcs']]
    if len({_json.dumps(a, sort_keys=True) for a in asts}) < len(asts):
        tags.add('dupctc')            # the same constraint twice
    if len({_shape(a) for a in asts}) < len(asts):
        tags.add('sameshapectc')      # two constraints equal up to the names in them
    for k in c['model']['ctcs']:
        ast_tags(k['ast'], tags)
        if _nary(k['ast']):
            tags.add('nary')
        if _chainlen(k['ast']) >= 6:
            tags.add('chain%d' % _chainlen(k['ast']))
        _nest_tags(k['ast'], tags)
    for f in c['model']['feats']:
        for a in f['attrs']:
            tags.add('attrval:' + a['val'].split(':')[0])
            if a['val'].startswith('i:-'):
                tags.add('attrval:negint')
            if a['val'].startswith('d:') and len(a['val'].split('.')[-1]) > 6:
                tags.add('attrval:longdec')
    return tags


UVL_WANTED = ['card-eq', 'fcard-eq', 'and-in-or', 'or-in-and', 'implies-in-implies', 'or-in-implies', 'not-in-not', 'chain6', 'chain10', 'dupctc', 'sameshapectc', 'typed', 'fcard', 'star', 'abstract', 'cardinality', 'mutex', 'alternative', 'or', 'mandatory', 'optional',
              'multi-rel-parent', 'attrval:n', 'attrval:b', 'attrval:i', 'attrval:negint', 'attrval:longdec', 'attrval:d', 'attrval:s', 'attrval:l', 'attrval:m',
              'op:NOT', 'op:AND', 'op:OR', 'op:IMPLIES', 'op:EQUIVALENCE', 'op:EQUALS', 'op:LOWER', 'op:GREATER',
              'op:LOWER_EQUALS', 'op:GREATER_EQUALS', 'op:NOT_EQUALS', 'op:ADD', 'op:SUB', 'op:MUL', 'op:DIV', 'op:SUM', 'op:AVG']


def prepare_surface(wanted, size):
    def prep(cases, tier, seed):
        pool = pick_pool(cases, wanted, size)
        out = []
        for cid, c in cases:
            if 'ch' not in c:
                continue
            m = pool[c['model'] - 1]
            out.append((cid, {'hist': m['hist'], 'model': m['model'], 'ch': c['ch'], 'broken': c['broken'],
                              'poolidx': c['model']}))
        return out
    return prep


def readref_script(fmt):
    def script(case, naming, tier, seed):
        ev, text = formats.readref_event(fmt, case['model'], naming, case['ch'], case['broken'])
        return [ev], {'key': [case['poolidx'], case['ch'], case['broken']], 'nontrivial': True}
    return script


prop('C04', ['uvl-Type', 'uvl-FCard', 'uvl-Attr', 'uvl-Star', 'uvl-Abs', 'Ref-uvl-Ctc', 'Ref-uvl-Arith', 'Ref-Mix', 'uvl-Dup', 'uvl-Ctc2', 'uvl-Chain', 'Surface-uvl'],
     name_classes=('space', 'punct', 'uvlkw', 'digit0', 'long', 'casepair'), naming_matters=True, prepare=prepare_surface(UVL_WANTED, 18),
     assumptions=['the reference emitter (harness/emit_ref.py) is written from the UVL grammar and is trusted',
                  'own-line comments and blank lines between sections are not emitted: the installed uvlparser '
                  '(a dependency) rejects them', 'sub-expressions are always parenthesised, so the oracle never '
                  'depends on operator precedence'],
     trusted=['harness/emit_ref.py (reference emitter)'])(readref_script('uvl'))


REF_FORMATS = {
    'fide': dict(surface='Surface-fide', sources=['fide-Tree', 'fide-Ctc', 'fide-Abs', 'Ref-fide-Ctc3', 'Ref-fide-Chain', 'fide-Dup'], size=18,
                 wanted=['and-in-or', 'or-in-and', 'and-in-implies', 'or-in-implies', 'chain6', 'chain7', 'chain10', 'chain12', 'dupctc', 'sameshapectc', 'mandatory', 'optional', 'or', 'alternative', 'abstract', 'multi-rel-parent', 'nary', 'op:NOT', 'op:AND',
                         'op:OR', 'op:IMPLIES', 'op:EQUIVALENCE', 'op:REQUIRES', 'op:EXCLUDES'],
                 ok=lambda m: True),
    'xml': dict(surface='Surface-xml', sources=['Ref-xml', 'Tree', 'Ref-xml-Wide', 'Ref-xml-Over'], size=12,
                wanted=['overhi-group', 'overhi-single', 'mandatory', 'optional', 'or', 'alternative', 'mutex', 'cardinality', 'card1', 'multi-rel-parent',
                        'op:REQUIRES', 'op:EXCLUDES', 'wide10'],
                ok=lambda m: all(c['ast']['op'] in ('REQUIRES', 'EXCLUDES') and c['ast']['l']['op'] == 'VAR'
                                 and c['ast']['r']['op'] == 'VAR' for c in m['ctcs'])
                and len({c['name'] for c in m['ctcs']}) == len(m['ctcs'])),
    'afm': dict(surface='Surface-afm', sources=['Ref-afm-Mix', 'afm-Ctc2', 'afm-Dup'], size=14,
                wanted=['and-in-or', 'or-in-and', 'dupctc', 'sameshapectc', 'mandatory', 'optional', 'or', 'alternative', 'mutex', 'cardinality', 'multi-rel-parent', 'attr',
                        'op:NOT', 'op:AND', 'op:OR', 'op:IMPLIES', 'op:EQUIVALENCE', 'op:REQUIRES', 'op:EXCLUDES'],
                ok=lambda m: True),
    'glencoe': dict(surface='Surface-glencoe', sources=['Ref-glencoe-Ctc', 'glencoe-Tree', 'Ref-glencoe-Chain', 'glencoe-Dup', 'glencoe-Ctc2'], size=18,
                    wanted=['mandsib-cardinality', 'mandsib-mutex', 'mandsib-or', 'mandsib-alternative', 'and-in-or', 'or-in-and', 'xor-in-and', 'and-in-xor', 'chain6', 'chain7', 'chain10', 'chain12', 'dupctc', 'sameshapectc', 'mandatory', 'optional', 'or', 'alternative', 'mutex', 'cardinality', 'op:NOT', 'op:AND', 'op:OR',
                            'op:XOR', 'op:IMPLIES', 'op:EQUIVALENCE', 'op:REQUIRES', 'op:EXCLUDES'],
                    ok=lambda m: len({c['name'] for c in m['ctcs']}) == len(m['ctcs'])),
}
REPO = os.environ.get('VERIF_REPO', '/repo')
CORPUS_DIRS = [REPO + '/resources/models/fama_test_suite', REPO + '/resources/models/simple',
               REPO + '/resources/models/synthetic/simple_betty_gen_models']
FULL_BOUND = {'quick': 100, 'thorough': 1000}


def corpus_files(tier, seed):
    files = []
    for d in CORPUS_DIRS:
        for root, _, fs in sorted(os.walk(d)):
            for f in sorted(fs):
                if f.endswith('.xml'):
                    files.append(os.path.join(root, f))
    if tier == 'quick':      # every small file; a seeded fifth of the files above the full-judgement bound
        rnd = random.Random(seed)
        keep = []
        for f in files:
            m = re.search(r'simple_betty_gen_models/(\d+)/', f)
            if m and int(m.group(1)) > FULL_BOUND['quick'] and rnd.random() > 0.2:
                continue
            keep.append(f)
        files = keep
    return files


def prepare_c09(cases, tier, seed):
    out = []
    for fmt, spec in REF_FORMATS.items():
        src = [(cid, c) for cid, c in cases if cid.rsplit('-', 1)[0] in spec['sources'] and spec['ok'](c['model'])]
        pool = pick_pool(src, spec['wanted'], spec['size'])
        for cid, c in cases:
            if cid.rsplit('-', 1)[0] != spec['surface']:
                continue
            m = pool[c['model'] - 1]
            out.append((cid, {'fmt': fmt, 'hist': m['hist'], 'model': m['model'], 'ch': c['ch'], 'broken': c['broken'],
                              'poolidx': c['model']}))
    for i, f in enumerate(corpus_files(tier, seed)):
        out.append(('Corpus-%05d' % i, {'corpus': f, 'tags': ['corpus']}))
    return out


@prop('C09', sorted({s for v in REF_FORMATS.values() for s in v['sources'] + [v['surface']]}),
      name_classes=('space', 'nonascii', 'casepair'), naming_matters=True, prepare=prepare_c09,
      assumptions=['the four reference emitters (harness/emit_ref.py) are trusted; the Glencoe emitter is limited to syntactic '
                   'freedom because no definition of the format other than this library is available offline',
                   'corpus files above the size bound are judged on the twelve summary numbers only (counted by the harness, '
                   'whose counting is validated against the specification on every smaller file of the same run)'],
      trusted=['harness/emit_ref.py', 'harness/formats.py: parse_statistics, summarize'])
def script_c09(case, naming, tier, seed):
    if 'corpus' in case:
        if naming.classes != ('plain',):
            return [], None
        ev, _ = formats.corpus_event(case['corpus'], None, FULL_BOUND[tier])
        return [ev], {'key': case['corpus'], 'nontrivial': True}
    nm = naming
    if case['fmt'] == 'afm':      # AFM identifiers: the plain naming becomes afmword, casepair becomes afmcase
        if naming.classes == ('plain',):
            nm = names.Naming(('afmword',), 0, naming.seed)
        elif naming.classes == ('casepair',):
            nm = names.Naming(('afmcase',), naming.k, naming.seed)
        else:
            return [], None
    ev, text = formats.readref_event(case['fmt'], case['model'], nm, case['ch'], case['broken'])
    return [ev], {'key': [case['fmt'], case['poolidx'], case['ch'], case['broken']], 'nontrivial': True}


# ---------------------------------------------------------------------------
# Every reader, every kind of source (C02)
RT_FORMATS = ['uvl', 'json', 'afm', 'fide', 'glencoe']
C02_FAMILIES = sorted(set([f + '-Tree' for f in RT_FORMATS] + [f + '-Ctc' for f in RT_FORMATS] + ['afm-Attr', 'uvl-Attr', 'json-Attr']
                          + PROPS['C09']['families'] + PROPS['C04']['families']))


def prepare_c02(cases, tier, seed):
    out = []
    rnd = random.Random(seed)
    cap = 700 if tier == 'quick' else 6000
    for fmt in RT_FORMATS:
        mine = [(cid, c) for cid, c in cases if cid.rsplit('-', 1)[0] in (fmt + '-Tree', fmt + '-Ctc', fmt + '-Attr')]
        if len(mine) > cap:
            mine = [mine[i] for i in sorted(rnd.sample(range(len(mine)), cap))]
        out += [(cid, dict(c, rt=fmt)) for cid, c in mine]
    c04 = set(PROPS['C04']['families'])
    out += [(cid, dict(c, fmt='uvl')) for cid, c in
            prepare_surface(UVL_WANTED, 18)([(cid, c) for cid, c in cases if cid.rsplit('-', 1)[0] in c04], tier, seed)]
    out += prepare_c09(cases, tier, seed)
    return out


@prop('C02', C02_FAMILIES, name_classes=('space', 'nonascii', 'numeric', 'digit0'), naming_matters=True, prepare=prepare_c02,
      name_stride={'quick': 6, 'thorough': 3},
      assumptions=['corpus files above the size bound are not judged for well-formedness (TLC cannot ingest them at useful speed)'],
      trusted=['harness/emit_ref.py'])
def script_c02(case, naming, tier, seed):
    if 'rt' in case:
        fmt = case['rt']
        nm = naming
        if fmt == 'afm':
            if naming.classes != ('plain',):
                return [], None
            nm = names.Naming(('afmword',), 0, naming.seed)
        b, ev = load_event(case, nm)
        wev, path, _ = formats.write_event(fmt, b.model, nm)
        events = [ev, wev]
        if wev['out'] == 'value':
            rev, model2 = formats.read_event(fmt, path, nm)
            events.append(rev)
            if rev['out'] == 'value' and model2 is not None and not rev['anom']:
                # every operation must be able to traverse what the reader built
                k = 0
                for op in ['estimate', 'core', 'atomic', 'leaves', 'count_leaves', 'depth', 'abf', 'varpoints', 'metrics']:
                    k += 1
                    ev2 = (observe.exec_metrics(observe.new_op(op), 500 + k, model2, nm, with_agree=False) if op == 'metrics'
                           else observe.exec_op(observe.new_op(op), 500 + k, op, model2, nm))
                    ev2['args']['ctx'] = 'afterread'
                    events.append(ev2)
        if os.path.exists(path):
            os.remove(path)
        return events, {'key': ['rt', fmt], 'nontrivial': True}
    return script_c09(case, naming, tier, seed)


prop('C16', ['Tree', 'TreeStar', 'DecorAbs', 'Big', 'Wide', 'Chain', 'Edit1', 'Edit1s', 'EditWalk'], naming_matters=True,
     name_classes=('casepair', 'natural'), name_stride={'quick': 8, 'thorough': 3}, prepare=prepare_c16,
     assumptions=['corpus models above the TLC size bound are judged on the mutual agreement of scalar results only'])(script_c16)
