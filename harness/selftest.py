"""./check --selftest: demonstrate that the specification is BOUND to the recorded
traces (DESIGN 11).  For a handful of real traces per action type one logged
field is corrupted (a parent pointer, a cardinality, an operand side, a digest,
a metric size, a configuration count +/- 1, ...) or one event is removed; TLC
must fail the intended clause on the corrupted copy and accept the original."""
import copy
import json
import os
import shutil
import sys

import families
import scripts
import tlc

VERIF = os.path.dirname(os.path.dirname(os.path.abspath(__file__)))


def first_event(tr, action, pred=lambda e: True):
    for i, e in enumerate(tr['ev']):
        if e['a'] == action and pred(e):
            return i
    return None


def c_childparent(tr):
    i = first_event(tr, 'AddRelation')
    tr['ev'][i]['post']['feats'][-1]['par'] = tr['ev'][i]['post']['feats'][-1]['name']
    return i


def c_card(tr):
    i = first_event(tr, 'AddRelation')
    tr['ev'][i]['post']['rels'][-1]['hi'] += 1
    return i


def c_drop_event(tr):
    i = first_event(tr, 'AddRelation')
    del tr['ev'][i]
    return i          # the event that follows can no longer be a step of the specification


def c_query_kind(tr):
    i = first_event(tr, 'Query', lambda e: e['ret']['rel'])
    r = tr['ev'][i]['ret']['rel'][0]
    r['is_mandatory'] = not r['is_mandatory']
    return i


def c_query_listing(tr):
    i = first_event(tr, 'Query', lambda e: len(e['ret']['features']) > 1)
    tr['ev'][i]['ret']['features'].pop()
    return i


def c_exec_n(tr):
    i = first_event(tr, 'Exec')
    tr['ev'][i]['ret']['n'] += 1
    return i


def c_exec_names_drop(tr):
    i = first_event(tr, 'Exec', lambda e: e['ret']['names'])
    tr['ev'][i]['ret']['names'].pop(0)
    return i


def c_exec_sets(tr):
    i = first_event(tr, 'Exec', lambda e: len(e['ret']['sets']) > 1)
    s = tr['ev'][i]['ret']['sets']
    s[0] = sorted(s[0] + s[1])
    del s[1]
    return i


def c_exec_mutates(tr):
    i = first_event(tr, 'Exec')
    tr['ev'][i]['post']['feats'][0]['abs'] = not tr['ev'][i]['post']['feats'][0]['abs']
    return i


def c_metric_size(tr):
    i = first_event(tr, 'Exec', lambda e: e['args']['op'] == 'metrics' and e['ret'].get('metrics'))
    m = next(x for x in tr['ev'][i]['ret']['metrics'] if x['has_size'])
    m['size'] += 1
    return i


def c_write_same(tr):
    i = first_event(tr, 'Write', lambda e: e['out'] == 'value')
    tr['ev'][i]['ret']['same'] = False
    return i


def c_write_digest(tr):
    ws = [i for i, e in enumerate(tr['ev']) if e['a'] == 'Write' and e['out'] == 'value']
    i = ws[-1]
    tr['ev'][i]['ret']['digest'] = 'corrupted'
    return i


def c_read_card(tr):
    i = first_event(tr, 'Read', lambda e: e['post']['rels'])
    r = tr['ev'][i]['post']['rels'][0]
    r['lo'], r['hi'] = (0, 1) if (r['lo'], r['hi']) != (0, 1) else (1, 1)
    return i


def c_read_operand_side(tr):
    def has_not(e):
        return any(c['ast']['op'] == 'NOT' for c in e['post']['ctcs'])
    i = first_event(tr, 'Read', has_not)
    for c in tr['ev'][i]['post']['ctcs']:
        if c['ast']['op'] == 'NOT':
            c['ast']['l'], c['ast']['r'] = c['ast']['r'], c['ast']['l']
    return i


def c_classify(tr):
    i = first_event(tr, 'Classify', lambda e: e['ret']['preds']['requires'])
    tr['ev'][i]['ret']['preds']['requires'] = False
    return i


def c_split(tr):
    i = first_event(tr, 'Classify', lambda e: len(e['ret']['parts']) > 1)
    p0 = tr['ev'][i]['ret']['parts'][0]
    tr['ev'][i]['ret']['parts'][0] = {'op': 'NOT', 'v': '', 'l': p0, 'r': {'op': 'NIL'}}
    return i


def c_compare(tr):
    i = first_event(tr, 'Compare')
    q = tr['ev'][i]['ret']['model']
    q['eq'] = not q['eq']
    return i


def c_export_group(tr):
    i = first_event(tr, 'Export', lambda e: e['args']['lang'] == 'splot' and e['ret']['doc']['groups'])
    g = tr['ev'][i]['ret']['doc']['groups'][0]
    n = len(g['members'])
    g['lo'], g['hi'] = (0, 0) if (g['lo'], g['hi']) != (0, 0) else (n, n)
    return i


def c_genattr(tr):
    i = first_event(tr, 'GenAttr', lambda e: e['ret']['added'] and e['args']['ranges'] and not e['args']['elems'])
    a = tr['ev'][i]['ret']['added'][0]
    a['num'] = 10 ** 6
    return i


# (name, property whose quick families provide the traces, trace predicate, corruption, expected clause prefix)
def _first_edit(tr, pred=lambda e: True):
    return next((i for i, e in enumerate(tr['ev']) if e['a'].startswith('Edit') and pred(e)), None)


def c_edit_dropped(tr):
    i = _first_edit(tr, lambda e: e['a'] == 'EditCard')
    del tr['ev'][i]
    return i          # the observation that follows sees a model no logged call explains


def c_edit_not_applied(tr):
    i = _first_edit(tr, lambda e: e['a'] == 'EditCard')
    tr['ev'][i]['post']['rels'] = tr['ev'][i - 1]['post']['rels']      # the assignment had no effect
    return i


def c_lookup_gone(tr):
    i = first_event(tr, 'Query', lambda e: e['ret']['lookup_gone'])
    g = tr['ev'][i]['ret']['lookup_gone'][0]
    g['found'] = g['n']          # a name that left the tree is still found
    return i


def c_order(tr):
    i = first_event(tr, 'Compare', lambda e: e['ret']['feats'])
    q = tr['ev'][i]['ret']['feats'][0]
    q['lt'] = q['gt'] = True
    return i


PLAN = [
    ('an in-place edit is not logged', 'C03', lambda t: _first_edit(t, lambda e: e['a'] == 'EditCard') is not None, c_edit_dropped, 'C03.query.samemodel'),
    ('an in-place edit has no effect', 'C03', lambda t: _first_edit(t, lambda e: e['a'] == 'EditCard') is not None, c_edit_not_applied, 'C03.build.step'),
    ('a removed name is still found', 'C03', lambda t: first_event(t, 'Query', lambda e: e['ret']['lookup_gone']) is not None, c_lookup_gone, 'C03.lookup.gone'),
    ('order relation not asymmetric', 'C20', lambda t: first_event(t, 'Compare', lambda e: e['ret']['feats']) is not None, c_order, 'X.order.feature.asym'),
    ('stale parent pointer after add_relation', 'C03', lambda t: first_event(t, 'AddRelation') is not None, c_childparent, 'C03.build.'),
    ('relation cardinality off by one', 'C03', lambda t: first_event(t, 'AddRelation') is not None, c_card, 'C03.build.step'),
    ('one builder event removed', 'C03', lambda t: len([e for e in t['ev'] if e['a'] == 'AddRelation']) >= 2, c_drop_event, 'C03.build.step'),
    ('relation predicate flipped', 'C03', lambda t: first_event(t, 'Query', lambda e: e['ret']['rel']) is not None, c_query_kind, 'C03.kind.mandatory'),
    ('feature listing loses an element', 'C03', lambda t: first_event(t, 'Query', lambda e: len(e['ret']['features']) > 1) is not None, c_query_listing, 'C03.listing.features'),
    ('configuration count + 1', 'C13', lambda t: True, c_exec_n, 'C13.'),
    ('core list loses the root', 'C14', lambda t: True, c_exec_names_drop, 'C14.root'),
    ('two atomic sets merged', 'C15', lambda t: first_event(t, 'Exec', lambda e: len(e['ret']['sets']) > 1) is not None, c_exec_sets, 'C15.'),
    ('depth + 1', 'C16', lambda t: True, lambda t: _exec_op(t, 'depth'), 'C16.depth.value'),
    ('operation mutates the model', 'C19', lambda t: first_event(t, 'Exec') is not None, c_exec_mutates, 'C19.pure.'),
    ('generated value outside the range', 'C19', lambda t: first_event(t, 'GenAttr', lambda e: e['ret']['added'] and e['args']['ranges'] and not e['args']['elems']) is not None, c_genattr, 'C19.gen.value'),
    ('metric size + 1', 'C17', lambda t: True, c_metric_size, 'C17.size'),
    ('returned text differs from the file', 'C05', lambda t: first_event(t, 'Write') is not None, c_write_same, 'C12.retfile.json'),
    ('text changes in a later cycle', 'C05', lambda t: len([e for e in t['ev'] if e['a'] == 'Write']) >= 3, c_write_digest, 'C05.cycle.text'),
    ('group cardinality changed by the round trip', 'C05', lambda t: first_event(t, 'Read', lambda e: e['post']['rels']) is not None, c_read_card, 'C05.preserve.groups'),
    ('NOT operand on the right after reading', 'C06', lambda t: first_event(t, 'Read', lambda e: any(c['ast']['op'] == 'NOT' for c in e['post']['ctcs'])) is not None, c_read_operand_side, 'C02.ast.shape'),
    ('requires form not reported', 'C18', lambda t: first_event(t, 'Classify', lambda e: e['ret']['preds']['requires']) is not None, c_classify, 'C18.'),
    ('split loses a part', 'C18', lambda t: first_event(t, 'Classify', lambda e: len(e['ret']['parts']) > 1 and 'XOR' not in json.dumps(e['ret']['ast']) and 'EQUIV' not in json.dumps(e['ret']['ast'])) is not None, c_split, 'C18.split'),
    ('model equality flipped', 'C20', lambda t: True, c_compare, 'C20.model.'),
    ('SXFM group bound changed', 'C10', lambda t: first_event(t, 'Export', lambda e: e['args']['lang'] == 'splot' and e['ret']['doc']['groups'] and e['ret']['parsed']) is not None, c_export_group, 'C10.splot.sameconfigs'),
]


def _exec_op(tr, op):
    i = first_event(tr, 'Exec', lambda e: e['args']['op'] == op)
    tr['ev'][i]['ret']['n'] += 1
    return i


_cases = {}
_done = {}


def find_trace(pid, pred, work, budget=6000):
    """A real trace of property pid satisfying pred: run cases (spread over the families) until one does."""
    if pid not in _cases:
        spec = scripts.PROPS[pid]
        cases = []
        for fam in spec['families']:
            cs, _ = families.generate(fam, 'quick', 0, os.path.join(work, 'gen-' + fam))
            cases += [('%s-%05d' % (fam, i), c) for i, c in enumerate(cs)]
        cases = scripts.select_cases(pid, 'quick', 0, cases)
        # interleave: a coarse stride first, then the rest
        order = list(range(0, len(cases), 37)) + [i for i in range(len(cases)) if i % 37]
        _cases[pid] = [cases[i] for i in order]
        _done[pid] = []
    for t in _done[pid]:
        if pred(t):
            return t
    while _cases[pid] and budget > 0:
        cid, c = _cases[pid].pop(0)
        budget -= 1
        for t, _ in scripts.run_case(pid, cid, c, 'quick', 0)[:1]:
            _done[pid].append(t)
            if pred(t):
                return t
    return None


def main():
    work = os.path.join(VERIF, '.work', 'selftest-%d' % os.getpid())
    shutil.rmtree(work, ignore_errors=True)
    os.makedirs(work)
    os.environ['VERIF_IODIR'] = os.path.join(work, 'io')
    cache = {}
    batch, expect = [], {}
    for n, (name, pid, pred, corrupt, clause) in enumerate(PLAN):
        src = find_trace(pid, pred, work)
        if src is None:
            print('SELFTEST machinery: no trace for "%s"' % name)
            return 2
        orig = copy.deepcopy(src)
        orig['id'] = 'orig-%02d' % n
        bad = copy.deepcopy(src)
        bad['id'] = 'bad-%02d' % n
        step = corrupt(bad)
        batch += [orig, bad]
        expect[n] = (name, clause, step + 1)
    shard = os.path.join(work, 'shard.ndjson')
    with open(shard, 'w') as f:
        for t in batch:
            f.write(json.dumps(t) + '\n')
    fails, _ = tlc.validate_shard(os.path.join(work, 'tv'), shard, heap='6g')
    byid = {}
    for fr in fails:
        byid.setdefault(fr['id'], []).append(fr)
    ok = True
    for n, (name, clause, step) in expect.items():
        o = [c for fr in byid.get('orig-%02d' % n, []) for c in fr['fails'] if '#' not in c]
        b = [c for fr in byid.get('bad-%02d' % n, []) for c in fr['fails']]
        hit = any(c.startswith(clause) for c in b)
        print('%-52s original: %-7s corrupted: %s' % (name, 'clean' if not o else 'FAILS', 'rejected by ' + next(c for c in b if c.startswith(clause)) if hit else 'NOT REJECTED (%s)' % b[:3]))
        if o or not hit:
            ok = False
            if o:
                print('    original fails:', o[:4])
    shutil.rmtree(work, ignore_errors=True)
    print('selftest', 'passed' if ok else 'FAILED')
    return 0 if ok else 1
