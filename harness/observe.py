"""Observation events: call public query methods / operations of the library
and log what they return, projected to abstract values.  No property logic
lives here: the trace specification judges every returned value."""
import copy
import traceback

from flamapy.core.models.ast import AST
from flamapy.metamodels.fm_metamodel.models import Feature, Relation, Constraint
from flamapy.metamodels.fm_metamodel.models import feature_model as fm_mod

from project import Projector, project, project_ast, tok, NIL

FEATURE_PREDS = ['is_root', 'is_leaf', 'is_mandatory', 'is_optional', 'is_or_group',
                 'is_alternative_group', 'is_mutex_group', 'is_cardinality_group', 'is_group',
                 'is_multiple_group_decomposition', 'is_boolean', 'is_numerical', 'is_string',
                 'is_multifeature']
RELATION_PREDS = ['is_mandatory', 'is_optional', 'is_or', 'is_alternative', 'is_mutex',
                  'is_cardinal', 'is_group']
CTC_PREDS = ['is_logical_constraint', 'is_arithmetic_constraint', 'is_aggregation_constraint',
             'is_single_feature_constraint', 'is_simple_constraint', 'is_complex_constraint',
             'is_requires_constraint', 'is_excludes_constraint', 'is_pseudocomplex_constraint',
             'is_strictcomplex_constraint']
FEATURE_LISTS = {'mandatory': 'get_mandatory_features', 'optional': 'get_optional_features',
                 'alternative_group': 'get_alternative_group_features',
                 'or_group': 'get_or_group_features', 'boolean': 'get_boolean_features',
                 'numerical': 'get_numerical_features', 'string': 'get_string_features'}
CTC_LISTS = {'logical': 'get_logical_constraints', 'arithmetic': 'get_arithmetic_constraints',
             'aggregation': 'get_aggregations_constraints', 'complex': 'get_complex_constraints',
             'simple': 'get_simple_constraints', 'pseudocomplex': 'get_pseudocomplex_constraints',
             'strictcomplex': 'get_strictcomplex_constraints',
             'excludes': 'get_excludes_constraints', 'requires': 'get_requires_constraints'}


def errname(exc):
    return type(exc).__name__


def _call(errors, label, fn, default):
    try:
        return fn()
    except Exception as exc:  # the call's outcome is data, judged by a 'total' clause
        errors.append(label + ':' + errname(exc))
        return default


def _bool(errors, label, v):
    if isinstance(v, bool):
        return v
    errors.append(label + ':nonbool=' + tok(v))
    return False


def _fname(naming, f):
    return naming.abs(f.name) if isinstance(f, Feature) else ('' if f is None else '?obj')


def classify(ctc, naming):
    """Every constraint-level query on one constraint (C18 / C03)."""
    errors = []
    before, _ = project_ast(ctc.ast.root, naming)
    preds = {}
    for p in CTC_PREDS:
        v = _call(errors, p, getattr(ctc, p), False)
        preds[p[3:-11] if p.endswith('_constraint') else p] = _bool(errors, p, v)
    pair = ['', '']
    has_pair = False
    if preds['simple']:
        res = _call(errors, 'left_right', lambda: fm_mod.left_right_features_from_simple_constraint(ctc), None)
        if res is not None:
            ok = isinstance(res, tuple) and len(res) == 2 and all(isinstance(x, str) for x in res)
            if ok:
                pair = [naming.abs(res[0]), naming.abs(res[1])]
                has_pair = True
            else:
                errors.append('left_right:shape=' + tok(list(res) if isinstance(res, tuple) else res))
    parts = []
    has_parts = False
    if preds['logical']:
        res = _call(errors, 'split', lambda: fm_mod.split_constraint(ctc), None)
        if res is not None:
            has_parts = True
            for part in res:
                a, an = project_ast(part.ast.root, naming)
                errors.extend('split.part:' + x for x in an)
                parts.append(a)
    feats = _call(errors, 'get_features', ctc.get_features, [])
    featnames = [naming.abs(x) if isinstance(x, str) else '?n:<%s>' % type(x).__name__ for x in feats]
    after, _ = project_ast(ctc.ast.root, naming)
    return {'ast': before, 'preds': preds, 'has_pair': has_pair, 'pair': pair,
            'has_parts': has_parts, 'parts': parts, 'features': featnames,
            'pure': before == after, 'errors': errors}


def query(model, naming):
    """Return values of all public query methods (C03)."""
    pj = Projector(naming)
    post, fobjs, robjs = pj.model(model)
    errors = []
    ret = {}
    flist = _call(errors, 'get_features', model.get_features, [])
    ret['features'] = [_fname(naming, f) for f in flist]
    rlist = _call(errors, 'get_relations', model.get_relations, [])
    rid = {id(r): i + 1 for i, r in enumerate(robjs)}
    ret['relations'] = [rid.get(id(r), 0) for r in rlist]   # 1-based index into post.rels, 0 = unknown
    listed = {}
    for f in flist:
        listed.setdefault(getattr(f, 'name', None), f)
    lookup = []
    for f in fobjs:
        got = _call(errors, 'get_feature_by_name', lambda: model.get_feature_by_name(f.name), None)
        lookup.append({'n': naming.abs(f.name), 'found': _fname(naming, got),
                       'same': got is listed.get(f.name) and got is not None})
    missing = _call(errors, 'get_feature_by_name', lambda: model.get_feature_by_name('\x00no such'), None)
    ret['lookup'] = lookup
    ret['lookup_missing'] = _fname(naming, missing)
    fl = []
    for f in fobjs:
        rec = {'name': naming.abs(f.name),
               'parent': _fname(naming, _call(errors, 'get_parent', f.get_parent, None)),
               'children': [_fname(naming, c) for c in _call(errors, 'get_children', f.get_children, [])],
               'nrel': len(_call(errors, 'Feature.get_relations', f.get_relations, []))}
        for p in FEATURE_PREDS:
            rec[p] = _bool(errors, p, _call(errors, 'Feature.' + p, getattr(f, p), False))
        fl.append(rec)
    ret['feat'] = fl
    rl = []
    for r in robjs:
        rec = {}
        for p in RELATION_PREDS:
            rec[p] = _bool(errors, p, _call(errors, 'Relation.' + p, getattr(r, p), False))
        rl.append(rec)
    ret['rel'] = rl
    lists = {}
    for k, meth in FEATURE_LISTS.items():
        lists[k] = [_fname(naming, f) for f in _call(errors, meth, getattr(model, meth), [])]
    ret['lists'] = lists
    cid = {id(c): i + 1 for i, c in enumerate(model.ctcs)}
    ret['constraints'] = [cid.get(id(c), 0) for c in _call(errors, 'get_constraints', model.get_constraints, [])]
    cl = {}
    for k, meth in CTC_LISTS.items():
        cl[k] = [cid.get(id(c), 0) for c in _call(errors, meth, getattr(model, meth), [])]
    ret['ctclists'] = cl
    ret['ctc'] = [classify(c, naming) for c in model.ctcs]
    ret['errors'] = errors
    post2, anom2 = project(model, naming)
    return {'a': 'Query', 'args': {}, 'out': 'value', 'post': post, 'anom': pj.anom,
            'ret': ret, 'pure': post == post2}
