"""Observation events: call public query methods / operations of the library
and log what they return, projected to abstract values.  No property logic
lives here: the trace specification judges every returned value."""
import copy
import traceback

from flamapy.core.models.ast import AST
from flamapy.metamodels.fm_metamodel.models import Feature, Relation, Constraint
from flamapy.metamodels.fm_metamodel.models import feature_model as fm_mod

from project import Projector, project, project_ast, tok, NIL

FEATURE_PREDS = ['is_root', 'is_leaf', 'is_mandatory', 'is_optional', 'is_or_group',
                 'is_alternative_group', 'is_mutex_group', 'is_cardinality_group', 'is_group',
                 'is_multiple_group_decomposition', 'is_boolean', 'is_numerical', 'is_string',
                 'is_multifeature']
RELATION_PREDS = ['is_mandatory', 'is_optional', 'is_or', 'is_alternative', 'is_mutex',
                  'is_cardinal', 'is_group']
CTC_PREDS = ['is_logical_constraint', 'is_arithmetic_constraint', 'is_aggregation_constraint',
             'is_single_feature_constraint', 'is_simple_constraint', 'is_complex_constraint',
             'is_requires_constraint', 'is_excludes_constraint', 'is_pseudocomplex_constraint',
             'is_strictcomplex_constraint']
FEATURE_LISTS = {'mandatory': 'get_mandatory_features', 'optional': 'get_optional_features',
                 'alternative_group': 'get_alternative_group_features',
                 'or_group': 'get_or_group_features', 'boolean': 'get_boolean_features',
                 'numerical': 'get_numerical_features', 'string': 'get_string_features'}
CTC_LISTS = {'logical': 'get_logical_constraints', 'arithmetic': 'get_arithmetic_constraints',
             'aggregation': 'get_aggregations_constraints', 'complex': 'get_complex_constraints',
             'simple': 'get_simple_constraints', 'pseudocomplex': 'get_pseudocomplex_constraints',
             'strictcomplex': 'get_strictcomplex_constraints',
             'excludes': 'get_excludes_constraints', 'requires': 'get_requires_constraints'}


import contextlib
import os
import signal

CALL_LIMIT = float(os.environ.get('VERIF_CALL_LIMIT', '10'))


class CallTimeout(BaseException):
    pass


def _on_alarm(signum, frame):
    raise CallTimeout()


@contextlib.contextmanager
def time_limit(seconds=None):
    """A library call that does not return within the limit is the outcome
    error:Timeout (judged by the action's `total` clause), not a hang."""
    seconds = seconds or CALL_LIMIT
    # CPU time of this process, not wall-clock: a busy machine must never turn into a verdict
    old = signal.signal(signal.SIGVTALRM, _on_alarm)
    signal.setitimer(signal.ITIMER_VIRTUAL, seconds)
    try:
        yield
    finally:
        signal.setitimer(signal.ITIMER_VIRTUAL, 0)
        signal.signal(signal.SIGVTALRM, old)


def errname(exc):
    return 'Timeout' if isinstance(exc, CallTimeout) else type(exc).__name__


def _call(errors, label, fn, default):
    try:
        with time_limit():
            return fn()
    except (Exception, CallTimeout) as exc:  # the call's outcome is data, judged by a 'total' clause
        errors.append(label + ':' + errname(exc))
        return default


def _bool(errors, label, v):
    if isinstance(v, bool):
        return v
    errors.append(label + ':nonbool=' + tok(v))
    return False


def _fname(naming, f):
    return naming.abs(f.name) if isinstance(f, Feature) else ('' if f is None else '?obj')


def classify(ctc, naming):
    """Every constraint-level query on one constraint (C18 / C03)."""
    errors = []
    before, _ = project_ast(ctc.ast.root, naming)
    preds = {}
    for p in CTC_PREDS:
        v = _call(errors, p, getattr(ctc, p), False)
        preds[p[3:-11] if p.endswith('_constraint') else p] = _bool(errors, p, v)
    pair = ['', '']
    has_pair = False
    if preds['simple']:
        res = _call(errors, 'left_right', lambda: fm_mod.left_right_features_from_simple_constraint(ctc), None)
        if res is not None:
            ok = isinstance(res, tuple) and len(res) == 2 and all(isinstance(x, str) for x in res)
            if ok:
                pair = [naming.abs(res[0]), naming.abs(res[1])]
                has_pair = True
            else:
                errors.append('left_right:shape=' + tok(list(res) if isinstance(res, tuple) else res))
    parts = []
    has_parts = False
    if preds['logical']:
        res = _call(errors, 'split', lambda: fm_mod.split_constraint(ctc), None)
        if res is not None:
            has_parts = True
            for part in res:
                a, an = project_ast(part.ast.root, naming)
                errors.extend('split.part:' + x for x in an)
                parts.append(a)
    feats = _call(errors, 'get_features', ctc.get_features, [])
    featnames = [naming.abs(x) if isinstance(x, str) else '?n:<%s>' % type(x).__name__ for x in feats]
    after, _ = project_ast(ctc.ast.root, naming)
    return {'ast': before, 'preds': preds, 'has_pair': has_pair, 'pair': pair,
            'has_parts': has_parts, 'parts': parts, 'features': featnames,
            'pure': before == after, 'errors': errors}


def query(model, naming, gone=()):
    """Return values of all public query methods (C03)."""
    pj = Projector(naming)
    post, fobjs, robjs = pj.model(model)
    errors = []
    ret = {}
    flist = _call(errors, 'get_features', model.get_features, [])
    ret['features'] = [_fname(naming, f) for f in flist]
    rlist = _call(errors, 'get_relations', model.get_relations, [])
    rid = {id(r): i + 1 for i, r in enumerate(robjs)}
    ret['relations'] = [rid.get(id(r), 0) for r in rlist]   # 1-based index into post.rels, 0 = unknown
    listed = {}
    for f in flist:
        listed.setdefault(getattr(f, 'name', None), f)
    # names that were features of this model object earlier in the history and are not any more: asked first,
    # before any other lookup of this query
    ret['lookup_gone'] = [{'n': g, 'found': _fname(naming, _call(errors, 'get_feature_by_name',
                                                                   lambda g=g: model.get_feature_by_name(naming.conc(g)), None))}
                          for g in gone]
    lookup = []
    for f in fobjs:
        got = _call(errors, 'get_feature_by_name', lambda: model.get_feature_by_name(f.name), None)
        lookup.append({'n': naming.abs(f.name), 'found': _fname(naming, got),
                       'same': got is listed.get(f.name) and got is not None})
    missing = _call(errors, 'get_feature_by_name', lambda: model.get_feature_by_name('\x00no such'), None)
    ret['lookup'] = lookup
    ret['lookup_missing'] = _fname(naming, missing)
    fl = []
    for f in fobjs:
        rec = {'name': naming.abs(f.name),
               'parent': _fname(naming, _call(errors, 'get_parent', f.get_parent, None)),
               'children': [_fname(naming, c) for c in _call(errors, 'get_children', f.get_children, [])],
               'nrel': len(_call(errors, 'Feature.get_relations', f.get_relations, []))}
        for p in FEATURE_PREDS:
            rec[p] = _bool(errors, p, _call(errors, 'Feature.' + p, getattr(f, p), False))
        fl.append(rec)
    ret['feat'] = fl
    rl = []
    for r in robjs:
        rec = {}
        for p in RELATION_PREDS:
            rec[p] = _bool(errors, p, _call(errors, 'Relation.' + p, getattr(r, p), False))
        rl.append(rec)
    ret['rel'] = rl
    lists = {}
    for k, meth in FEATURE_LISTS.items():
        lists[k] = [_fname(naming, f) for f in _call(errors, meth, getattr(model, meth), [])]
    ret['lists'] = lists
    cid = {id(c): i + 1 for i, c in enumerate(model.ctcs)}
    ret['constraints'] = [cid.get(id(c), 0) for c in _call(errors, 'get_constraints', model.get_constraints, [])]
    cl = {}
    for k, meth in CTC_LISTS.items():
        cl[k] = [cid.get(id(c), 0) for c in _call(errors, meth, getattr(model, meth), [])]
    ret['ctclists'] = cl
    ret['ctc'] = [classify(c, naming) for c in model.ctcs]
    # get_new_ctc_name: a name with the given prefix that no constraint of the model carries
    from flamapy.metamodels.fm_metamodel.models.feature_model import get_new_ctc_name
    cnames = [c.name for c in model.ctcs]
    ret['newnames'] = []
    for prefix in ['c', 'c1', 'CTC'] + cnames[:2]:
        before = list(cnames)
        got = _call(errors, 'get_new_ctc_name', lambda: get_new_ctc_name(cnames, prefix), '')
        ret['newnames'].append({'prefix': prefix, 'got': got if isinstance(got, str) else '?obj', 'pure': cnames == before})
    ret['errors'] = errors
    post2, anom2 = project(model, naming)
    return {'a': 'Query', 'args': {}, 'out': 'value', 'post': post, 'anom': pj.anom,
            'ret': ret, 'pure': post == post2}


# ---------------------------------------------------------------------------
# Analysis operations (C13-C17, C19)
from flamapy.metamodels.fm_metamodel import operations as fm_ops  # noqa: E402

OPS = {
    'estimate': 'FMEstimatedConfigurationsNumber', 'core': 'FMCoreFeatures', 'atomic': 'FMAtomicSets',
    'leaves': 'FMLeafFeatures', 'count_leaves': 'FMCountLeafs', 'depth': 'FMMaxDepthTree',
    'abf': 'FMAverageBranchingFactor', 'ancestors': 'FMFeatureAncestors', 'varpoints': 'FMVariationPoints',
    'metrics': 'FMMetrics',
}
I32 = 2 ** 31 - 1


def new_op(op):
    return getattr(fm_ops, OPS[op])()


def _names(naming, seq, bad):
    out = []
    for f in seq:
        if isinstance(f, Feature):
            out.append(naming.abs(f.name))
        else:
            bad.append('non-feature in result: ' + tok(f))
    return out


def empty_ret():
    return {'n': 0, 'names': [], 'sets': [], 'keys': [], 'vals': [], 'bad': [], 'big': ''}


def project_result(op, res, naming):
    r = empty_ret()
    bad = r['bad']
    if op in ('estimate', 'count_leaves', 'depth'):
        if isinstance(res, int) and not isinstance(res, bool):
            if -I32 <= res <= I32:
                r['n'] = res
            else:
                r['big'] = str(res)
        else:
            bad.append('result not int: ' + tok(res))
    elif op in ('core', 'leaves', 'ancestors'):
        if isinstance(res, list):
            r['names'] = _names(naming, res, bad)
        else:
            bad.append('result not list: ' + tok(res))
    elif op == 'atomic':
        if isinstance(res, list) and all(isinstance(s, (set, frozenset, list)) for s in res):
            r['sets'] = [sorted(_names(naming, s, bad)) for s in res]
        else:
            bad.append('result not list of sets: ' + tok(res))
    elif op == 'abf':
        if isinstance(res, (int, float)) and not isinstance(res, bool) and res == res and abs(res) < 1e6:
            # value x100 as the nearest integer; the spec checks it against children/branches
            r['n'] = int(round(res * 100))
            if abs(res * 100 - r['n']) > 1e-6:
                bad.append('more than two decimals: ' + tok(res))
        else:
            bad.append('result not a number: ' + tok(res))
    elif op == 'varpoints':
        if isinstance(res, dict):
            r['keys'] = _names(naming, list(res.keys()), bad)
            r['vals'] = [_names(naming, v, bad) if isinstance(v, list) else bad.append('value not list') or []
                         for v in res.values()]
        else:
            bad.append('result not dict: ' + tok(res))
    return r


def exec_op(obj, objid, op, model, naming, fobj=None, seqno=1):
    """Execute one analysis operation on an existing operation object and log it."""
    args = {'op': op, 'obj': objid, 'f': naming.abs(fobj.name) if fobj is not None else '', 'seq': seqno, 'ctx': ''}
    out = 'value'
    ret = empty_ret()
    try:
        with time_limit():
            if op == 'ancestors':
                obj.set_feature(fobj)
            res = obj.execute(model).get_result()
        ret = project_result(op, res, naming)
    except (Exception, CallTimeout) as exc:
        out = 'error:' + errname(exc)
    post, anom = project(model, naming)
    return {'a': 'Exec', 'args': args, 'out': out, 'post': post, 'anom': anom, 'ret': ret}


# ---------------------------------------------------------------------------
# Metrics report (C17)
def _x100(v, bad, what):
    if isinstance(v, bool) or not isinstance(v, (int, float)) or v != v or abs(v) > 1e7:
        bad.append('%s not a number: %s' % (what, tok(v)))
        return 0
    x = int(round(v * 100))
    if abs(v * 100 - x) > 1e-6:
        bad.append('%s has more than two decimals: %s' % (what, tok(v)))
    return x


def project_metrics(res, model, naming):
    """The report as a sequence of fixed-shape entries."""
    bad = []
    entries = []
    ctc_strs = []
    for c in model.ctcs:
        try:
            ctc_strs.append(str(c))
        except Exception:
            ctc_strs.append(None)
    if not isinstance(res, list):
        return [], ['report not a list: ' + tok(res)]
    for item in res:
        e = {'name': '', 'kind': 'none', 'names': [], 'idx': [], 'len': 0, 'x100': 0,
             'has_size': False, 'size': 0, 'has_ratio': False, 'r4': 0, 'parent': '', 'level': 0}
        if not isinstance(item, dict) or not isinstance(item.get('name'), str):
            bad.append('entry not a named dict: ' + tok(item))
            entries.append(e)
            continue
        e['name'] = item['name']
        val = item.get('result')
        if isinstance(val, list):
            e['len'] = len(val)
            if item['name'].lower().endswith('constraints') and 'features in' not in item['name'].lower():
                e['kind'] = 'idx'
                used = set()
                for sv in val:
                    hit = 0
                    for i, cs in enumerate(ctc_strs):
                        if cs == sv and i not in used:
                            hit = i + 1
                            used.add(i)
                            break
                    e['idx'].append(hit)
            elif item['name'] == 'Tree relationships':
                e['kind'] = 'count'
            else:
                e['kind'] = 'names'
                e['names'] = [naming.abs(x) if isinstance(x, str) else '?n:<%s>' % type(x).__name__ for x in val]
        elif isinstance(val, str):
            e['kind'] = 'names'
            e['names'] = [naming.abs(val)]
            e['len'] = 1
        else:
            e['kind'] = 'scalar'
            e['x100'] = _x100(val, bad, item['name'])
        size = item.get('size')
        if size is not None:
            if isinstance(size, int) and not isinstance(size, bool) and abs(size) < I32:
                e['has_size'], e['size'] = True, size
            else:
                bad.append('%s.size=%s' % (item['name'], tok(size)))
        ratio = item.get('ratio')
        if ratio is not None:
            if isinstance(ratio, (int, float)) and not isinstance(ratio, bool) and ratio == ratio and abs(ratio) < 1e4:
                e['has_ratio'] = True
                e['r4'] = int(round(ratio * 10000))
                if abs(ratio * 10000 - e['r4']) > 1e-6:
                    bad.append('%s.ratio has more than four decimals: %s' % (item['name'], tok(ratio)))
            else:
                bad.append('%s.ratio=%s' % (item['name'], tok(ratio)))
        par = item.get('parent')
        e['parent'] = par if isinstance(par, str) else ''
        lvl = item.get('level')
        e['level'] = lvl if isinstance(lvl, int) and not isinstance(lvl, bool) else -1
        entries.append(e)
    return entries, bad


def exec_metrics(obj, objid, model, naming, flt=None, seqno=1, with_agree=True, apply_filter=True, caller_list=None):
    """FMMetrics on an existing object (with an optional only_these_metrics filter)."""
    args = {'op': 'metrics', 'obj': objid, 'f': ('filter:' + ','.join(flt)) if flt is not None else '', 'seq': seqno, 'ctx': '',
            'filtered': flt is not None, 'filter': list(flt) if flt is not None else []}
    out = 'value'
    ret = empty_ret()
    ret['metrics'] = []
    try:
        with time_limit():
            if flt is not None and apply_filter:
                # caller_list: the caller's OWN list object is handed in (and looked at again afterwards)
                obj.only_these_metrics(caller_list if caller_list is not None else list(flt))
            res = obj.execute(model).get_result()
        ret['metrics'], ret['bad'] = project_metrics(res, model, naming)
    except (Exception, CallTimeout) as exc:
        out = 'error:' + errname(exc)
    # the per-constraint predicates and the stand-alone operations the report must agree with
    ret['ctc'] = [classify(c, naming) for c in model.ctcs]
    agree = {}
    for op in ('abf', 'depth', 'leaves', 'count_leaves'):
        ev = exec_op(new_op(op), 0, op, model, naming)
        agree[op] = {'out': ev['out'], 'n': ev['ret']['n'], 'names': ev['ret']['names']}
    ret['agree'] = agree
    post, anom = project(model, naming)
    return {'a': 'Exec', 'args': args, 'out': out, 'post': post, 'anom': anom, 'ret': ret}


# ---------------------------------------------------------------------------
# Random attribute generation (C19)
from flamapy.metamodels.fm_metamodel.models import Domain, Range  # noqa: E402

DOM_SHAPES = {
    # shape: (elements, ranges, scale)
    'elements':   (['x', 'y', 3, True], [], 1),
    'intrange':   ([], [(1, 3)], 1),
    'floatrange': ([], [(0.5, 2.25)], 100),
    'tworanges':  ([], [(1, 2), (10, 12)], 1),
    'mixture':    (['lo', 'hi'], [(5, 6)], 1),
    'mixedfloat': ([], [(1, 2.5)], 10),
    'unset':      ([], [], 1),
}


def gen_attr(model, naming, attr_abs, shape, leaves, seed):
    import random as _random
    from flamapy.metamodels.fm_metamodel.operations import GenerateRandomAttribute
    elems, ranges, scale = DOM_SHAPES[shape]
    name = naming.conc(attr_abs)
    args = {'name': attr_abs, 'leaves': leaves, 'unset': shape == 'unset', 'shape': shape, 'seed': seed,
            'scale': scale, 'elems': [tok(x) for x in elems],
            'ranges': [{'isint': isinstance(lo, int) and isinstance(hi, int),
                        'lo': int(round(lo * scale)), 'hi': int(round(hi * scale))} for lo, hi in ranges]}
    op = GenerateRandomAttribute()
    out = 'value'
    _random.seed(seed)
    try:
        with time_limit():
            op.set_name(name)
            if shape != 'unset':
                op.set_domain(Domain([Range(lo, hi) for lo, hi in ranges] or None, list(elems) or None))
            op.set_only_leaf_features(leaves)
            op.execute(model)
    except (Exception, CallTimeout) as exc:
        out = 'error:' + errname(exc)
    pj = Projector(naming)
    post, fobjs, _ = pj.model(model)
    added = []
    for f in fobjs:
        mine = [a for a in f.attributes if getattr(a, 'name', None) == name]
        if not mine:
            continue
        v = mine[-1].default_value
        rec = {'f': naming.abs(f.name), 'tok': tok(v), 'isnum': False, 'isint': False, 'num': 0}
        if isinstance(v, (int, float)) and not isinstance(v, bool) and v == v and abs(v) < 1e6:
            x = v * scale
            if abs(x - round(x)) < 1e-9:
                rec.update(isnum=True, isint=isinstance(v, int), num=int(round(x)))
        added.append(rec)
    # the generated attribute's domain token is not compared: mask it in the projection of NEW attributes only
    return {'a': 'GenAttr', 'args': args, 'out': out, 'post': post, 'anom': pj.anom, 'ret': {'added': added}}


# ---------------------------------------------------------------------------
# Equality and hashing (C20)
def _cmp(errors, label, x, y):
    eq = _bool(errors, label + '.eq', _call(errors, label + '.eq', lambda: x == y, False))
    qe = _bool(errors, label + '.qe', _call(errors, label + '.qe', lambda: y == x, False))
    ne = _bool(errors, label + '.ne', _call(errors, label + '.ne', lambda: x != y, True))
    hx = _call(errors, label + '.hash', lambda: hash(x), 0)
    hy = _call(errors, label + '.hash', lambda: hash(y), 1)
    rx = _bool(errors, label + '.refl', _call(errors, label + '.refl', lambda: x == x and y == y, False))
    lt = gt = False
    if label != 'model':      # features, relations and constraints are ordered (sorted() is how equality ignores order)
        lt = _bool(errors, label + '.lt', _call(errors, label + '.lt', lambda: x < y, False))
        gt = _bool(errors, label + '.gt', _call(errors, label + '.gt', lambda: y < x, False))
    return {'eq': eq, 'qe': qe, 'ne': ne, 'h': hx == hy, 'refl': rx, 'lt': lt, 'gt': gt}


def compare(a, b, naming, how, edit):
    pa, pb = Projector(naming), Projector(naming)
    proj_a, fa, ra = pa.model(a)
    proj_b, fb, rb = pb.model(b)
    errors = []
    ret = {'model': _cmp(errors, 'model', a, b)}
    ret['feats'] = [dict(_cmp(errors, 'feature', x, y), i=i + 1, j=j + 1)
                    for i, x in enumerate(fa) for j, y in enumerate(fb)]
    ret['rels'] = [dict(_cmp(errors, 'relation', x, y), i=i + 1, j=j + 1)
                   for i, x in enumerate(ra) for j, y in enumerate(rb)]
    ret['ctcs'] = [dict(_cmp(errors, 'constraint', x, y), i=i + 1, j=j + 1)
                   for i, x in enumerate(a.ctcs) for j, y in enumerate(b.ctcs)]
    ret['errors'] = errors
    return {'a': 'Compare', 'args': {'how': how, 'edit': edit}, 'out': 'value', 'post': proj_a, 'other': proj_b,
            'anom': pa.anom + pb.anom, 'ret': ret}


def exec_big(model, naming):
    """The tree-shape operations on a large corpus model: scalar results only."""
    errors = []

    def run(op, fobj=None):
        o = new_op(op)
        try:
            with time_limit(60):
                if fobj is not None:
                    o.set_feature(fobj)
                return o.execute(model).get_result()
        except (Exception, CallTimeout) as exc:
            errors.append(op + ':' + errname(exc))
            return None
    leaves = run('leaves')
    count = run('count_leaves')
    depth = run('depth')
    abf = run('abf')
    vps = run('varpoints')
    feats = []
    stack = [model.root]
    while stack:                      # own walk: number of features and of non-leaf features
        f = stack.pop()
        feats.append(f)
        for r in f.relations:
            stack.extend(r.children)
    max_anc = 0
    for lf in (leaves or [])[:20000]:
        anc = run('ancestors', lf) if len(feats) <= 3000 else None
        if anc is None:
            n, p = 0, lf.parent          # chain of parent pointers (public attribute)
            while p is not None:
                n, p = n + 1, p.parent
            max_anc = max(max_anc, n)
        else:
            max_anc = max(max_anc, len(anc))
    bad = []
    ret = {'errors': errors, 'nfeat': len(feats), 'nbranch': sum(1 for f in feats if f.relations),
           'count_leaves': count if isinstance(count, int) else -1, 'len_leaves': len(leaves) if isinstance(leaves, list) else -2,
           'depth': depth if isinstance(depth, int) else -1, 'max_anc_len': max_anc,
           'abf100': _x100(abf, bad, 'abf') if abf is not None else 0,
           'nvarpoints': len(vps) if isinstance(vps, dict) else -1}
    ret['errors'] = errors + bad
    return {'a': 'ExecBig', 'args': {}, 'out': 'value', 'ret': ret}


def exec_chain(n):
    """A chain of n mandatory features: closed-form results (robustness at depth)."""
    from flamapy.metamodels.fm_metamodel.models import FeatureModel
    root = Feature('c0')
    cur = root
    for i in range(1, n):
        nxt = Feature('c%d' % i)
        cur.add_relation(Relation(cur, [nxt], 1, 1))
        cur = nxt
    model = FeatureModel(root)
    ret = {}

    def run(key, op, post, fobj=None):
        o = new_op(op)
        try:
            with time_limit(60):
                if fobj is not None:
                    o.set_feature(fobj)
                res = o.execute(model).get_result()
            ret[key + '_out'] = 'value'
            post(res)
        except (Exception, CallTimeout, RecursionError) as exc:
            ret[key + '_out'] = 'error:' + errname(exc)
    ret.update(estimate=0, core_len=0, core_distinct=0, atomic_sets=0, atomic_first=0, depth=0, leaves=0, anc_len=0)
    run('estimate', 'estimate', lambda r: ret.update(estimate=r if isinstance(r, int) and abs(r) < I32 else -1))
    run('core', 'core', lambda r: ret.update(core_len=len(r), core_distinct=len({f.name for f in r})))
    run('atomic', 'atomic', lambda r: ret.update(atomic_sets=len(r), atomic_first=len(r[0]) if r else 0))
    run('depth', 'depth', lambda r: ret.update(depth=r if isinstance(r, int) else -1))
    run('leaves', 'leaves', lambda r: ret.update(leaves=len(r)))
    run('anc', 'ancestors', lambda r: ret.update(anc_len=len(r)), cur)
    return {'a': 'ExecChain', 'args': {'n': n}, 'out': 'value', 'ret': ret}


def exec_wide(groups):
    """The estimate on a root that owns relations over leaf children only (counts far beyond 2^31).
    The result is logged as its decimal digits; the specification computes the exact count on digit sequences."""
    from flamapy.metamodels.fm_metamodel.models import FeatureModel
    root = Feature('w')
    for gi, g in enumerate(groups):
        kids = [Feature('w%d_%d' % (gi, k)) for k in range(g['n'])]
        root.add_relation(Relation(root, kids, g['lo'], g['hi']))
    model = FeatureModel(root)
    ret = {'out': 'value', 'digits': ''}
    try:
        with time_limit(60):
            res = new_op('estimate').execute(model).get_result()
        if isinstance(res, int) and not isinstance(res, bool) and res >= 0:
            ret['digits'] = str(res)
        else:
            ret['digits'] = '?' + tok(res)[:60]
    except (Exception, CallTimeout, RecursionError) as exc:
        ret['out'] = 'error:' + errname(exc)
    return {'a': 'ExecWide', 'args': {'groups': groups}, 'out': 'value', 'ret': ret}


def shape_model(nroot, extra):
    """Root with `nroot` optional children; the first len(extra) of them get extra[i] children each."""
    from flamapy.metamodels.fm_metamodel.models import FeatureModel
    root = Feature('s0')
    kids = []
    k = 0
    for i in range(nroot):
        k += 1
        f = Feature('s%d' % k)
        kids.append(f)
        root.add_relation(Relation(root, [f], 0, 1))
    for i, n in enumerate(extra):
        sub = []
        for j in range(n):
            k += 1
            sub.append(Feature('s%d' % k))
        kids[i].add_relation(Relation(kids[i], sub, 1, len(sub)) if len(sub) > 1 else Relation(kids[i], sub, 1, 1))
    return FeatureModel(root)
