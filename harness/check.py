#!/venv/bin/python
"""Entry point of every check (DESIGN 2, 12).

  check.py <Cxx> --tier quick|thorough      run the property's check
  check.py --replay <file>                  re-run one recorded failing case
  check.py --selftest                       demonstrate the binding (corrupt traces)

exit 0: property held on everything explored (KNOWN-FINDING lines allowed)
exit 1: "VIOLATION property=<id> replay=<path>" printed
exit 2: machinery failure (TLC error, lemma violated, count mismatch) - never a pass
"""
import argparse
import collections
import concurrent.futures
import json
import multiprocessing
import os
import shutil
import sys
import time
import traceback

HERE = os.path.dirname(os.path.abspath(__file__))
VERIF = os.path.dirname(HERE)
OUT = os.environ.get('VERIF_OUT', VERIF)     # evidence/ and replays/ go here (seeded-change runs use a scratch dir)
sys.path.insert(0, HERE)
sys.path.insert(0, os.environ.get('VERIF_REPO', '/repo'))   # default: /repo's working tree

import tlc  # noqa: E402
import findings  # noqa: E402
import families  # noqa: E402
import scripts  # noqa: E402

NPROC = int(os.environ.get('VERIF_NPROC', '16'))


def log(*a):
    print(*a, file=sys.stderr, flush=True)


SHARD_BYTES = int(os.environ.get('VERIF_SHARD_MB', '6')) * 1000000     # a shard is judged by one JVM
NJVM = int(os.environ.get('VERIF_JVMS', '14'))                           # JVMs validating at the same time
JVM_HEAP = os.environ.get('VERIF_JVM_HEAP', '2g')


def _work(arg):
    """Run the cases of one chunk; the traces go straight to shard files (never held in memory), what comes
    back is one light record per trace: (id, number of events, meta without the case, shard path)."""
    prop, tier, seed, idx, chunk, workdir = arg
    out = []
    part, size, f = 0, 0, None
    path = None
    for cid, case in chunk:
        try:
            res = scripts.run_case(prop, cid, case, tier, seed)
        except Exception:
            raise RuntimeError('driver failed on case %s: %s\n%s'
                               % (cid, json.dumps(case)[:500], traceback.format_exc()))
        for tr, meta in res:
            line = json.dumps(tr)
            if f is None or size + len(line) > SHARD_BYTES:
                if f is not None:
                    f.close()
                part += 1
                path = os.path.join(workdir, 'shard%03d-%03d.ndjson' % (idx, part))
                f, size = open(path, 'w'), 0
            f.write(line + '\n')
            size += len(line) + 1
            meta = {k: v for k, v in meta.items() if k != 'case'}
            meta['cid'] = cid
            out.append((tr['id'], len(tr['ev']), meta, path))
    if f is not None:
        f.close()
    return out


def drive(prop, tier, seed, cases, workdir):
    """cases: list of (cid, case) -> list of (trace id, #events, meta, shard path)."""
    chunks = [cases[i::NPROC * 4] for i in range(NPROC * 4)]
    chunks = [c for c in chunks if c]
    args = [(prop, tier, seed, i, c, workdir) for i, c in enumerate(chunks)]
    if len(cases) < 40:
        res = [_work((prop, tier, seed, 0, cases, workdir))]
    else:
        ctx = multiprocessing.get_context('fork')
        with ctx.Pool(NPROC) as pool:
            res = pool.map(_work, args)
    out = []
    for r in res:
        out.extend(r)
    out.sort(key=lambda t: t[0])
    return out


def read_trace(path, tid):
    with open(path) as f:
        for line in f:
            if tid in line[:400]:
                tr = json.loads(line)
                if tr['id'] == tid:
                    return tr
    raise tlc.TLCError('trace %s not found in %s' % (tid, path))


def pack_shards(workdir, recs):
    """Small shard files (one per driver chunk) are concatenated into files of about SHARD_BYTES, so that the
    number of JVMs is proportional to the volume of the traces.  -> recs with the new paths"""
    paths = sorted({r[3] for r in recs}, key=lambda p: -os.path.getsize(p))
    total = sum(os.path.getsize(p) for p in paths)
    limit = min(SHARD_BYTES, max(1000000, total // NJVM + 1))      # enough files to keep every JVM slot busy
    bins = []       # [size, target path, [sources]]
    for p in paths:
        sz = os.path.getsize(p)
        for b in bins:
            if b[0] + sz <= limit:
                b[0] += sz
                b[2].append(p)
                break
        else:
            bins.append([sz, os.path.join(workdir, 'pack%03d.ndjson' % len(bins)), [p]])
    moved = {}
    for _, target, srcs in bins:
        with open(target, 'wb') as out:
            for p in srcs:
                with open(p, 'rb') as f:
                    shutil.copyfileobj(f, out)
                os.remove(p)
                moved[p] = target
    return [(tid, n, meta, moved[p]) for tid, n, meta, p in recs]


def validate(workdir, recs):
    """Judge every shard with TLC -> (list of fail records, stats)"""
    paths = sorted({r[3] for r in recs})
    fails, gen, dist = [], 0, 0
    with concurrent.futures.ThreadPoolExecutor(max_workers=NJVM) as ex:
        futs = [ex.submit(tlc.validate_shard, os.path.join(workdir, 'tv%03d' % i), p, JVM_HEAP)
                for i, p in enumerate(paths)]
        for fu in futs:
            fl, st = fu.result()
            fails.extend(fl)
            gen += st['generated']
            dist += st['distinct']
    expected = sum(r[1] + 1 for r in recs)
    if dist != expected:
        raise tlc.TLCError('trace validation consumed %d states, expected %d' % (dist, expected))
    return fails, {'states': dist, 'transitions': gen, 'shards': len(paths)}


def run_check(prop, tier, seed, keep=False):
    t0 = time.time()
    work = os.path.join(VERIF, '.work', '%s-%s-%d' % (prop, tier, os.getpid()))
    shutil.rmtree(work, ignore_errors=True)
    os.makedirs(work)
    os.environ['VERIF_IODIR'] = os.path.join(work, 'io')
    spec = scripts.PROPS[prop]
    gen_stats = []
    cases = []
    only = os.environ.get('VERIF_ONLY_FAMILIES')      # debugging aid: restrict the run to some families
    for fam in spec['families']:
        if only and fam not in only.split(','):
            continue
        cs, st = families.generate(fam, tier, seed, os.path.join(work, 'gen-' + fam))
        st = dict(st, family=fam)
        cap = families.FAMILIES[fam][tier].get('cap')
        if cap and len(cs) > cap:
            import random
            rnd = random.Random(seed * 1000003 + len(cs))
            cs = [cs[i] for i in sorted(rnd.sample(range(len(cs)), cap))]
            st['sampled_to'] = cap
            st['simulate'] = st.get('simulate') or {'sampled': cap}
        gen_stats.append(st)
        for i, c in enumerate(cs):
            cases.append(('%s-%05d' % (fam, i), c))
        log('[%s] family %s: %d cases (%d states, %.1fs)' % (prop, fam, len(cs), st['distinct'], st['wall_s']))
    proofs = []
    if prop == 'C03':      # lemma L1 for all cardinalities (TLAPS), next to TLC's check of it on every generated relation
        proofs.append(tlc.prove(os.path.join(work, 'proof')))
        log('[%s] %s' % (prop, proofs[-1]))
    cases = scripts.select_cases(prop, tier, seed, cases)
    case_of = dict(cases)
    recs = pack_shards(work, drive(prop, tier, seed, cases, work))
    if len({r[0] for r in recs}) != len(recs):
        raise tlc.TLCError('trace ids are not unique')
    metas = {r[0]: dict(r[2], case=case_of[r[2]['cid']]) for r in recs}
    shard_of = {r[0]: r[3] for r in recs}
    ntraces = len(recs)
    nev = sum(r[1] for r in recs)
    log('[%s] %d traces, %d events recorded from the library (%.1fs)' % (prop, ntraces, nev, time.time() - t0))
    fails, vstats = validate(work, recs)
    log('[%s] TLC judged %d states in %d shards (%.1fs)' % (prop, vstats['states'], vstats['shards'], time.time() - t0))
    # ---- aggregate
    prefix = prop + '.'
    kf = findings.load()
    violations, known = [], collections.OrderedDict()
    other_props = collections.Counter()
    by_class = collections.Counter()
    tr_cache = {}

    def trace_of(tid):
        if tid not in tr_cache:
            tr_cache[tid] = read_trace(shard_of[tid], tid)
        return tr_cache[tid]

    for fr in fails:
        tr = trace_of(fr['id'])
        meta = metas[fr['id']]
        ev = tr['ev'][fr['step'] - 1]
        for clause in fr['fails']:
            if clause.startswith('T.'):
                raise tlc.TLCError('trace machinery clause failed: %s in %s step %d' % (clause, fr['id'], fr['step']))
            if not clause.startswith(prefix):
                other_props[clause] += 1
                continue
            ent = findings.match(kf, prop, clause, meta, ev, tr)
            if ent is not None:
                known.setdefault(ent['id'], [ent, 0])
                known[ent['id']][1] += 1
            else:
                violations.append((fr['id'], fr['step'], clause))
                by_class['%s|%s|%s' % (clause, ','.join(meta['naming']['classes']), fr['id'].split('-')[2])] += 1
    replay_paths = []
    if violations:
        rdir = os.path.join(OUT, 'replays', prop)
        os.makedirs(rdir, exist_ok=True)
        byid = collections.OrderedDict()
        for tid, step, clause in violations:
            byid.setdefault(tid, []).append((step, clause))
        chosen, per_clause = [], collections.Counter()
        for tid, lst in byid.items():          # a few traces per distinct failing clause
            if any(per_clause[c] < 4 for _, c in lst) and len(chosen) < 60:
                chosen.append(tid)
                for _, c in lst:
                    per_clause[c] += 1
        for tid in chosen:
            lst = byid[tid]
            p = os.path.join(rdir, tid + '.json')
            with open(p, 'w') as f:
                m = metas[tid]
                json.dump({'property': prop, 'tier': tier, 'seed': seed, 'trace_id': tid,
                           'failing': [{'step': s, 'clause': c} for s, c in lst],
                           'meta': {k: v for k, v in m.items() if k != 'case'},
                           'case': {k: v for k, v in m['case'].items() if k != '_cid'},
                           'cid': m['cid'], 'trace': trace_of(tid)}, f, indent=1)
            replay_paths.append((p, lst))
    for ent, cnt in known.values():
        print('KNOWN-FINDING: property=%s %s [clause %s; %d occurrences]' % (prop, ent['note'], ent['clause'], cnt))
    clause_counts = collections.Counter(c for _, _, c in violations)
    for p, lst in replay_paths:
        print('VIOLATION property=%s replay=%s clauses=%s' % (prop, p, ','.join(sorted({c for _, c in lst}))))
    if violations and not replay_paths:
        print('VIOLATION property=%s replay=none' % prop)
    # ---- evidence
    wall = time.time() - t0
    cov = scripts.coverage(prop, [(None, metas[r[0]]) for r in recs])
    if cov.get('nontrivial', 0) < 2 or not recs:
        raise tlc.TLCError('vacuous run: %r' % cov)
    sample = trace_of(recs[len(recs) // 2][0])
    ev = {
        'property_id': prop, 'tier': tier, 'seed': seed, 'level': 'model_checking',
        'coverage': {
            'states': vstats['states'] + sum(s['distinct'] for s in gen_stats),
            'transitions': vstats['transitions'] + sum(s['generated'] for s in gen_stats),
            'traces_validated_against_impl': ntraces,
            'events_validated': nev,
            'samples': [{'trace_id': sample['id'], 'meta': {k: v for k, v in metas[sample['id']].items() if k != 'case'},
                         'events': [{'a': e['a'], 'args': e.get('args', {})} for e in sample['ev']][:12]}],
            'exhaustive': all(not s.get('simulate') for s in gen_stats) and not cov.get('sampled', False),
            'generators': gen_stats,
            'proofs': proofs,
            'evaluations': ntraces,
            'distinct_nontrivial': cov.get('nontrivial', 0),
            'rule': cov.get('rule', ''),
            'detail': cov.get('detail', {}),
            'clauses_failing_known': {e['id']: c for e, c in known.values()},
            'clauses_failing_new': dict(clause_counts),
            'clauses_failing_new_by_class_family': dict(by_class),
            'other_property_clause_failures_seen': dict(other_props),
            'checker_cmd': 'tlc FMTrace.tla (TSpec, POSTCONDITION AllConsumed) over traces recorded by harness/scripts.py',
            'trusted_base': ['TLC 1.8 / SANY / CommunityModules Json', 'harness/project.py (abstraction function)',
                             'harness/names.py (concretisation)'] + spec.get('trusted', []),
        },
        'assumptions': spec.get('assumptions', []),
        'wall_s': round(wall, 2),
        'violations': len(violations),
    }
    os.makedirs(os.path.join(OUT, 'evidence'), exist_ok=True)
    with open(os.path.join(OUT, 'evidence', prop + '.json'), 'w') as f:
        json.dump(ev, f, indent=1)
    if not keep and not violations:
        shutil.rmtree(work, ignore_errors=True)
    log('[%s] %s tier done in %.1fs: %d violations, %d known-finding kinds'
        % (prop, tier, wall, len(violations), len(known)))
    return 1 if violations else 0


def main():
    ap = argparse.ArgumentParser()
    ap.add_argument('prop', nargs='?')
    ap.add_argument('--tier', default=os.environ.get('VERIF_TIER', 'quick'))
    ap.add_argument('--replay')
    ap.add_argument('--selftest', action='store_true')
    ap.add_argument('--keep', action='store_true')
    args = ap.parse_args()
    seed = int(os.environ.get('VERIF_SEED', '0'))
    os.environ.setdefault('PYTHONHASHSEED', '0')
    try:
        if args.selftest:
            import selftest
            return selftest.main()
        if args.replay:
            import replay
            return replay.main(args.replay)
        if args.prop not in scripts.PROPS:
            log('unknown property', args.prop)
            return 2
        return run_check(args.prop, args.tier, seed, keep=args.keep)
    except tlc.TLCError as exc:
        log('MACHINERY FAILURE: %s' % exc)
        return 2
    except Exception:
        log('MACHINERY FAILURE:\n' + traceback.format_exc())
        return 2


if __name__ == '__main__':
    sys.exit(main())
