"""Abstraction function: Python object graph -> TLA+ state (DESIGN 4.1).

Walks the graph through public attributes only, keyed by id() with a visit cap,
so shared or cyclic structures terminate and show up as duplicates.  It does
NOT use get_features()/get_relations(): those are under test (C03).

Every field has one fixed JSON type.  A field that should be an integer or a
Boolean but is not gets a sentinel of the right type and an entry in `anom`
(the action's shape clause is `anom = <<>>`), so an anomaly in the library's
data is a failed, named clause - never a TLC evaluation error.
"""
import json
import math

from flamapy.core.models.ast import ASTOperation, Node, AST
from flamapy.metamodels.fm_metamodel.models import (
    Feature, Relation, Constraint, FeatureModel, Attribute, Domain, Range, Cardinality,
    FeatureType)

NIL = {'op': 'NIL'}
I32 = 2 ** 31 - 1
CAP = 200000


def aesc(s):
    return json.dumps(s, ensure_ascii=True)[1:-1]


def tok(v):
    """Type-and-value token of an attribute value; nothing is coerced."""
    if v is None:
        return 'n'
    if isinstance(v, bool):
        return 'b:true' if v else 'b:false'
    if isinstance(v, int):
        return 'i:%d' % v
    if isinstance(v, float):
        return 'd:%r' % v
    if isinstance(v, str):
        return 's:' + aesc(v)
    if isinstance(v, (list, tuple)):
        return 'l:[' + ','.join(tok(x) for x in v) + ']'
    if isinstance(v, dict):
        items = sorted((tok(k), tok(x)) for k, x in v.items())
        return 'm:{' + ','.join(k + '=' + x for k, x in items) + '}'
    return '?obj:' + type(v).__name__


def untok(t):
    """Inverse of tok for the tokens the generators use."""
    if t == 'n':
        return None
    if t.startswith('b:'):
        return t == 'b:true'
    if t.startswith('i:'):
        return int(t[2:])
    if t.startswith('d:'):
        return float(t[2:])
    if t.startswith('s:'):
        return json.loads('"' + t[2:] + '"')
    if t.startswith('l:['):
        return [untok(x) for x in _split(t[3:-1])]
    if t.startswith('m:{'):
        out = {}
        for kv in _split(t[3:-1]):
            k, x = _spliteq(kv)
            out[untok(k)] = untok(x)
        return out
    raise ValueError('bad token ' + t)


def _split(s):
    parts, depth, cur = [], 0, ''
    for ch in s:
        if ch in '[{':
            depth += 1
        elif ch in ']}':
            depth -= 1
        if ch == ',' and depth == 0:
            parts.append(cur)
            cur = ''
        else:
            cur += ch
    if cur != '':
        parts.append(cur)
    return parts


def _spliteq(s):
    depth = 0
    for i, ch in enumerate(s):
        if ch in '[{':
            depth += 1
        elif ch in ']}':
            depth -= 1
        elif ch == '=' and depth == 0:
            return s[:i], s[i + 1:]
    raise ValueError(s)


def domtok(d):
    if d is None:
        return ''
    if not isinstance(d, Domain):
        return '?obj:' + type(d).__name__
    rs = ';'.join('%s..%s' % (tok(getattr(r, 'min_value', None)), tok(getattr(r, 'max_value', None)))
                  for r in (d.range_list or []))
    es = ','.join(tok(e) for e in (d.element_list or []))
    return 'R:' + rs + '|E:' + es


def undomtok(t):
    if t == '':
        return None
    rpart, epart = t.split('|E:', 1)
    rpart = rpart[2:]
    ranges = []
    if rpart:
        for r in rpart.split(';'):
            lo, hi = r.split('..')
            ranges.append(Range(untok(lo), untok(hi)))
    elements = [untok(e) for e in _split(epart)] if epart else []
    return Domain(ranges or None, elements or None)


class Projector:
    def __init__(self, naming):
        self.naming = naming
        self.anom = []

    def _int(self, v, what):
        if isinstance(v, int) and not isinstance(v, bool) and -I32 <= v <= I32:
            return v
        self.anom.append('%s=%s' % (what, tok(v)))
        return -7

    def _bool(self, v, what):
        if isinstance(v, bool):
            return v
        self.anom.append('%s=%s' % (what, tok(v)))
        return False

    def _name(self, obj, what):
        if obj is None:
            return ''
        if isinstance(obj, Feature):
            return self.naming.abs(obj.name)
        self.anom.append('%s=?obj:%s' % (what, type(obj).__name__))
        return '?obj'

    def ast(self, node, depth=0):
        if node is None:
            return NIL
        if depth > 60:
            self.anom.append('ast too deep or cyclic')
            return NIL
        if not isinstance(node, Node):
            self.anom.append('ast node=?obj:%s' % type(node).__name__)
            return NIL
        d = node.data
        if isinstance(d, ASTOperation):
            return {'op': d.name, 'v': '', 'l': self.ast(node.left, depth + 1),
                    'r': self.ast(node.right, depth + 1)}
        if isinstance(d, bool) or d is None or not isinstance(d, (str, int, float)):
            self.anom.append('ast leaf=%s' % tok(d))
            kind, v = 'VAR', '?obj:' + type(d).__name__
        elif isinstance(d, int):
            kind, v = 'INT', str(d)
        elif isinstance(d, float):
            kind, v = 'NUM', repr(d)
        elif d.startswith("'"):
            kind, v = 'STR', aesc(d)
        else:
            kind, v = 'VAR', self.naming.abs(d)
        return {'op': kind, 'v': v, 'l': self.ast(node.left, depth + 1),
                'r': self.ast(node.right, depth + 1)}

    def attr(self, a, fname):
        if not isinstance(a, Attribute):
            self.anom.append('attr of %s=?obj:%s' % (fname, type(a).__name__))
            return {'name': '?obj', 'val': 'n', 'owner': '', 'dom': '', 'nul': 'n'}
        return {'name': self.naming.abs(a.name), 'val': tok(a.default_value),
                'owner': self._name(a.parent, 'attr.parent'), 'dom': domtok(a.domain),
                'nul': tok(a.null_value)}

    def feature(self, f):
        n = self.naming.abs(f.name)
        fc = f.feature_cardinality
        if isinstance(fc, Cardinality):
            fclo, fchi = self._int(fc.min, n + '.fcard.min'), self._int(fc.max, n + '.fcard.max')
        else:
            self.anom.append(n + '.fcard=?obj:' + type(fc).__name__)
            fclo, fchi = -7, -7
        if isinstance(f.feature_type, FeatureType):
            ft = f.feature_type.value
        else:
            self.anom.append(n + '.ftype=' + tok(f.feature_type))
            ft = '?'
        attrs = f.attributes if isinstance(f.attributes, list) else []
        return {'name': n, 'par': self._name(f.parent, n + '.parent'),
                'abs': self._bool(f.is_abstract, n + '.abs'), 'ftype': ft,
                'fclo': fclo, 'fchi': fchi, 'attrs': [self.attr(a, n) for a in attrs]}

    def model(self, m):
        """-> (projection, feature objects in walk order, relation objects in walk order)"""
        feats, rels, fobjs, robjs = [], [], [], []
        seen = set()
        root = getattr(m, 'root', None)
        if not isinstance(root, Feature):
            self.anom.append('root=?obj:' + type(root).__name__)
            rootname = ''
        else:
            rootname = self.naming.abs(root.name)
            stack = [root]
            while stack:
                f = stack.pop()
                if len(feats) > CAP:
                    self.anom.append('visit cap reached')
                    break
                feats.append(self.feature(f))
                fobjs.append(f)
                if id(f) in seen:
                    self.anom.append('feature object reached twice: ' + feats[-1]['name'])
                    continue
                seen.add(id(f))
                kids_rev = []
                frels = f.relations if isinstance(f.relations, list) else []
                for r in frels:
                    if not isinstance(r, Relation):
                        self.anom.append('relation=?obj:' + type(r).__name__)
                        continue
                    kids = [k for k in (r.children or []) if isinstance(k, Feature)]
                    if len(kids) != len(r.children or []):
                        self.anom.append('non-feature child')
                    n = feats[-1]['name'] if False else self.naming.abs(f.name)
                    rels.append({'owner': n, 'pp': self._name(r.parent, 'rel.parent'),
                                 'kids': [self.naming.abs(k.name) for k in kids],
                                 'lo': self._int(r.card_min, 'rel.card_min'),
                                 'hi': self._int(r.card_max, 'rel.card_max')})
                    robjs.append(r)
                    kids_rev.extend(kids)
                stack.extend(reversed(kids_rev))
        ctcs = []
        for c in (m.ctcs if isinstance(getattr(m, 'ctcs', None), list) else []):
            if not isinstance(c, Constraint):
                self.anom.append('ctc=?obj:' + type(c).__name__)
                continue
            a = c.ast
            abs_ctc = getattr(self.naming, 'abs_ctc', None)
            ctcs.append({'name': (abs_ctc(c.name) if abs_ctc else aesc(c.name)) if isinstance(c.name, str) else '?n:<%s>' % type(c.name).__name__,
                         'ast': self.ast(a.root if isinstance(a, AST) else None)})
        proj = {'root': rootname, 'feats': feats, 'rels': rels, 'ctcs': ctcs}
        return proj, fobjs, robjs


def project(m, naming):
    """-> (model projection, anomalies)"""
    p = Projector(naming)
    proj, _, _ = p.model(m)
    return proj, p.anom


def project_ast(node, naming):
    p = Projector(naming)
    return p.ast(node), p.anom
