"""Generator families (DESIGN 7): constants of the TLC runs that enumerate cases."""
import tlc

LOGIC_BIN = {'AND', 'OR', 'XOR', 'IMPLIES', 'REQUIRES', 'EXCLUDES', 'EQUIVALENCE'}

FAMILIES = {
    # all tree shapes, every cardinality 0<=lo<=hi<=k including dead (0,0) relations
    'Tree': {
        'quick':    dict(consts=dict(N=5, MaxKids=4, MinHi=0), invariants=tlc.GEN_INVARIANTS + tlc.SEM_INVARIANTS),
        'thorough': dict(consts=dict(N=6, MaxKids=4, MinHi=0), invariants=tlc.GEN_INVARIANTS + tlc.SEM_INVARIANTS),
    },
    # random larger models (seeded walks): up to 12 features, every relation kind, one or two constraints
    'Big': {
        'quick':    dict(consts=dict(N=12, MaxKids=4, MinHi=0, AllowStar=True, Axes={'ctc'}, MaxCtc=2, CtcDepth=1, CtcBinOps=LOGIC_BIN,
                                     CtcMinFeatures=8), invariants=tlc.GEN_INVARIANTS, simulate=dict(num=150, depth=12)),
        'thorough': dict(consts=dict(N=12, MaxKids=4, MinHi=0, AllowStar=True, Axes={'ctc'}, MaxCtc=2, CtcDepth=1, CtcBinOps=LOGIC_BIN,
                                     CtcMinFeatures=8), invariants=tlc.GEN_INVARIANTS, simulate=dict(num=3000, depth=12)),
    },
    # one or two relations over 20 to 100 leaf children: counts beyond 2^31, judged on decimal digit sequences (FMBig)
    'WideLeaves': {
        'quick':    dict(module='FMWide', defaults=False, invariants=['TypeOK'],
                         consts=dict(Ns={33, 57, 64, 100}, Cards={'or', 'alt', 'mutex', '2to5', 'all', 'any', 'star2', 'half'},
                                     Seconds={'none', 'or20', 'mutex64'})),
        'thorough': dict(module='FMWide', defaults=False, invariants=['TypeOK'],
                         consts=dict(Ns={20, 31, 32, 33, 52, 53, 57, 63, 64, 65, 100, 128}, Cards={'or', 'alt', 'mutex', '2to5', 'all', 'any', 'star2', 'half'},
                                     Seconds={'none', 'opt', 'or20', 'alt33', 'mutex64'})),
    },
    # wide groups: up to 7 children in one relation, at most two relations
    'Wide': {
        'quick':    dict(consts=dict(N=8, MaxKids=7, MinHi=0, MaxLevel=3), invariants=tlc.GEN_INVARIANTS, cap=2500),
        'thorough': dict(consts=dict(N=8, MaxKids=7, MinHi=0, MaxLevel=4), invariants=tlc.GEN_INVARIANTS, cap=20000),
    },
    # deep chains: single-child relations of every cardinality down to depth 7 (quick) / 9
    'Chain': {
        'quick':    dict(consts=dict(N=8, MaxKids=1, MinHi=0, Shape='chain'), invariants=tlc.GEN_INVARIANTS),
        'thorough': dict(consts=dict(N=10, MaxKids=1, MinHi=0, Shape='chain'), invariants=tlc.GEN_INVARIANTS),
    },
    # three constraints at once
    'Ctc3': {
        'quick':    dict(consts=dict(N=2, MaxKids=1, MinHi=1, Axes={'ctc'}, MaxCtc=3, CtcDepth=1, CtcBinOps={'IMPLIES', 'EXCLUDES'},
                                     CtcMinFeatures=2), invariants=tlc.GEN_INVARIANTS, cap=2500),
        'thorough': dict(consts=dict(N=2, MaxKids=1, MinHi=1, Axes={'ctc'}, MaxCtc=3, CtcDepth=1, CtcBinOps={'IMPLIES', 'EXCLUDES', 'OR'},
                                     CtcMinFeatures=2), invariants=tlc.GEN_INVARIANTS, cap=20000),
    },
    # two or three requires-type constraints over four or five features (seeded walks): several sources of one target, chains
    'Req2': {
        'quick':    dict(consts=dict(N=5, MaxKids=2, MinHi=0, Axes={'ctc'}, MaxCtc=3, CtcDepth=1, CtcBinOps={'IMPLIES', 'REQUIRES'}, CtcMinFeatures=4),
                         invariants=tlc.GEN_INVARIANTS, simulate=dict(num=500, depth=9), cap=900),
        'thorough': dict(consts=dict(N=6, MaxKids=3, MinHi=0, Axes={'ctc'}, MaxCtc=3, CtcDepth=1, CtcBinOps={'IMPLIES', 'REQUIRES', 'EXCLUDES'}, CtcMinFeatures=4),
                         invariants=tlc.GEN_INVARIANTS, simulate=dict(num=6000, depth=10), cap=8000),
    },
    # every decoration at once (seeded walks): abstract + typed + feature cardinality + attributes + constraints
    'Mix': {
        'quick':    dict(consts=dict(N=7, MaxKids=3, MinHi=0, AllowStar=True, Axes={'abs', 'type', 'fcard', 'attr', 'ctc'},
                                     Types={'Integer', 'Real', 'String'}, FCards={(0, 1), (2, 3), (1, -1), (0, -1)}, AttrNames=['a1', 'a2'],
                                     AttrVals=[{'val': v, 'dom': '', 'nul': 'n'} for v in ['n', 'b:true', 'i:5', 'i:-5', 'd:1.5', 's:txt']],
                                     MaxCtc=3, CtcDepth=1, CtcBinOps=LOGIC_BIN, CtcMinFeatures=4, CtcGrow=1),
                         invariants=tlc.GEN_INVARIANTS, simulate=dict(num=250, depth=16)),
        'thorough': dict(consts=dict(N=8, MaxKids=4, MinHi=0, AllowStar=True, Axes={'abs', 'type', 'fcard', 'attr', 'ctc'},
                                     Types={'Integer', 'Real', 'String'}, FCards={(0, 1), (2, 3), (1, -1), (0, -1)}, AttrNames=['a1', 'a2'],
                                     AttrVals=[{'val': v, 'dom': '', 'nul': 'n'} for v in ['n', 'b:true', 'i:5', 'i:-5', 'd:1.5', 's:txt']],
                                     MaxCtc=3, CtcDepth=1, CtcBinOps=LOGIC_BIN, CtcMinFeatures=4, CtcGrow=1),
                         invariants=tlc.GEN_INVARIANTS, simulate=dict(num=3000, depth=18)),
    },
    # the same with [lo..*] relations (UVL)
    'TreeStar': {
        'quick':    dict(consts=dict(N=4, MaxKids=3, MinHi=0, AllowStar=True), invariants=tlc.GEN_INVARIANTS),
        'thorough': dict(consts=dict(N=5, MaxKids=4, MinHi=0, AllowStar=True), invariants=tlc.GEN_INVARIANTS),
    },
    # trees x one constraint from all depth<=1 trees over the model's features
    'TreeCtc': {
        'quick':    dict(consts=dict(N=4, MaxKids=3, MinHi=1, Axes={'ctc'}, MaxCtc=1, CtcDepth=1, CtcBinOps=LOGIC_BIN),
                         invariants=tlc.GEN_INVARIANTS),
        'thorough': dict(consts=dict(N=5, MaxKids=4, MinHi=1, Axes={'ctc'}, MaxCtc=1, CtcDepth=1, CtcBinOps=LOGIC_BIN),
                         invariants=tlc.GEN_INVARIANTS),
    },
    # decorations, one axis per family: abstract flags, types, feature cardinalities
    'DecorAbs': {
        'quick':    dict(consts=dict(N=4, MaxKids=3, MinHi=1, Axes={'abs'}), invariants=tlc.GEN_INVARIANTS),
        'thorough': dict(consts=dict(N=5, MaxKids=4, MinHi=1, Axes={'abs'}), invariants=tlc.GEN_INVARIANTS),
    },
    'DecorType': {
        'quick':    dict(consts=dict(N=3, MaxKids=2, MinHi=1, Axes={'type'}, Types={'Integer', 'Real', 'String'}),
                         invariants=tlc.GEN_INVARIANTS),
        'thorough': dict(consts=dict(N=4, MaxKids=3, MinHi=1, Axes={'type'}, Types={'Integer', 'Real', 'String'}),
                         invariants=tlc.GEN_INVARIANTS),
    },
    'DecorFCard': {
        'quick':    dict(consts=dict(N=3, MaxKids=2, MinHi=1, Axes={'fcard'}, FCards={(0, 1), (2, 3), (1, -1)}),
                         invariants=tlc.GEN_INVARIANTS),
        'thorough': dict(consts=dict(N=4, MaxKids=3, MinHi=1, Axes={'fcard'}, FCards={(0, 1), (2, 3), (1, -1)}),
                         invariants=tlc.GEN_INVARIANTS),
    },
    # constraint trees: all of depth <= 2 over three names, plus arithmetic/aggregate shapes
    'Ast': {
        'quick':    dict(module='FMAstGen', consts=dict(ANames={'f1', 'f2', 'f3'}, BinOps=LOGIC_BIN, Depth=2, GrowSteps=0, WithArith=True, Walks=0, Seed=0, NegLits=0),
                         invariants=['L8_Forms', 'L_Shape'], defaults=False),
        'thorough': dict(module='FMAstGen', consts=dict(ANames={'f1', 'f2', 'f3'}, BinOps=LOGIC_BIN, Depth=2, GrowSteps=0, WithArith=True, Walks=0, Seed=0, NegLits=0),
                         invariants=['L8_Forms', 'L_Shape'], defaults=False),
    },
    # random deeper trees (simulation)
    'AstDeep': {
        'quick':    dict(module='FMAstGen', consts=dict(ANames={'f1', 'f2', 'f3'}, BinOps=LOGIC_BIN, Depth=1, GrowSteps=2, WithArith=False, NegLits=0,
                                                       Walks=300), invariants=['L_Shape'], defaults=False, walks_ast=True),
        'thorough': dict(module='FMAstGen', consts=dict(ANames={'f1', 'f2', 'f3', 'f4'}, BinOps=LOGIC_BIN, Depth=1, GrowSteps=2, WithArith=False, NegLits=0,
                                                       Walks=5000), invariants=['L_Shape'], defaults=False, walks_ast=True),
    },
    'AstNeg': {   # one operator over two literals with up to three redundant negations each
        t: dict(module='FMAstGen', consts=dict(ANames={'f1', 'f2'}, BinOps=LOGIC_BIN, Depth=0, GrowSteps=0, WithArith=False, Walks=0, Seed=0, NegLits=3),
                invariants=['L_Shape'], defaults=False) for t in ('quick', 'thorough')},
    'AstNNF': {   # walks inside the and/or/not fragment (what CNF conversion works on), to depth 4
        'quick':    dict(module='FMAstGen', consts=dict(ANames={'f1', 'f2', 'f3', 'f4'}, BinOps={'AND', 'OR'}, Depth=1, GrowSteps=3,
                                                       WithArith=False, NegLits=0, Walks=700), invariants=['L_Shape'], defaults=False, walks_ast=True),
        'thorough': dict(module='FMAstGen', consts=dict(ANames={'f1', 'f2', 'f3', 'f4'}, BinOps={'AND', 'OR'}, Depth=1, GrowSteps=4,
                                                       WithArith=False, NegLits=0, Walks=8000), invariants=['L_Shape'], defaults=False, walks_ast=True),
    },
    'DecorAttr': {
        'quick':    dict(consts=dict(N=3, MaxKids=2, MinHi=1, Axes={'attr'}, AttrNames=['a1'],
                                     AttrVals=[{'val': 'i:7', 'dom': '', 'nul': 'n'}, {'val': 'n', 'dom': '', 'nul': 'n'}]),
                         invariants=tlc.GEN_INVARIANTS),
        'thorough': dict(consts=dict(N=3, MaxKids=2, MinHi=1, Axes={'attr'}, AttrNames=['a1'],
                                     AttrVals=[{'val': 'i:7', 'dom': '', 'nul': 'n'}, {'val': 'n', 'dom': '', 'nul': 'n'}]),
                         invariants=tlc.GEN_INVARIANTS),
    },
    # histories: operation kind x sequences of pool models on one object; GenAttr parameter space
    'Hist': {
        'quick':    dict(module='FMHist', defaults=False, invariants=['TypeOK'],
                         consts=dict(Ops={'estimate', 'core', 'atomic', 'leaves', 'count_leaves', 'depth', 'abf',
                                          'ancestors', 'varpoints', 'metrics'},
                                     PoolSize=10, MaxLen=2,
                                     DomShapes={'elements', 'intrange', 'floatrange', 'tworanges', 'mixture', 'mixedfloat', 'unset'},
                                     Seeds={0, 1})),
        'thorough': dict(module='FMHist', defaults=False, invariants=['TypeOK'],
                         consts=dict(Ops={'estimate', 'core', 'atomic', 'leaves', 'count_leaves', 'depth', 'abf',
                                          'ancestors', 'varpoints', 'metrics'},
                                     PoolSize=10, MaxLen=3,
                                     DomShapes={'elements', 'intrange', 'floatrange', 'tworanges', 'mixture', 'mixedfloat', 'unset'},
                                     Seeds={0, 1, 2, 3, 4, 5, 6, 7})),
    },
    # pairs: each model with its order-permuted copies and its single-point edits
    'Eq': {
        'quick':    dict(module='FMEqGen', spec='ESpec', emit='EEmit', emit_all=False,
                         consts=dict(N=5, MaxKids=2, MinHi=1,
                                     Strategies={'revkids', 'rotkids', 'revrels', 'revall'}),
                         invariants=['InvWellFormed', 'L11_Eq']),
        'thorough': dict(module='FMEqGen', spec='ESpec', emit='EEmit', emit_all=False,
                         consts=dict(N=5, MaxKids=4, MinHi=0,
                                     Strategies={'revkids', 'rotkids', 'revrels', 'revall'}),
                         invariants=['InvWellFormed', 'L11_Eq']),
    },
    'Eq3': {   # three single-feature constraints: repeated constraints, edits that make one equal to another
        t: dict(module='FMEqGen', spec='ESpec', emit='EEmit', emit_all=False,
                consts=dict(N=2, MaxKids=1, MinHi=1, Axes={'ctc'}, MaxCtc=3, CtcDepth=0, CtcBinOps=set(), CtcMinFeatures=2,
                            Strategies={'revctcs'}),
                invariants=['InvWellFormed', 'L11_Eq']) for t in ('quick', 'thorough')},
    'Eq2': {   # two constraints, so that constraint order matters
        'quick':    dict(module='FMEqGen', spec='ESpec', emit='EEmit', emit_all=False,
                         consts=dict(N=2, MaxKids=1, MinHi=1, Axes={'ctc'}, MaxCtc=2, CtcDepth=1, CtcBinOps={'OR', 'EXCLUDES'},
                                     Strategies={'revctcs', 'revall', 'casectc'}),
                         invariants=['InvWellFormed', 'L11_Eq']),
        'thorough': dict(module='FMEqGen', spec='ESpec', emit='EEmit', emit_all=False,
                         consts=dict(N=3, MaxKids=2, MinHi=1, Axes={'ctc'}, MaxCtc=2, CtcDepth=1, CtcBinOps={'OR', 'EXCLUDES'},
                                     Strategies={'revctcs', 'revall', 'casectc'}),
                         invariants=['InvWellFormed', 'L11_Eq']),
    },
}


ATTR_VALS_JSON = [{'val': v, 'dom': '', 'nul': 'n'} for v in
                  ['n', 'b:true', 'b:false', 'i:5', 'i:0', 'd:1.5', 's:txt', 's:two words', 's:true', 's:False', 's:5', 'l:[i:1,s:x]',
                   'm:{s:k=i:1}', 'd:0.30000000000000004', 'i:-7', 'd:1e-07', 'i:123456789012345678']]
ALL_OPS_NOT_XOR = LOGIC_BIN - {'XOR'}


def fmt_families(fmt, ops, attr_vals=None, star=False, abstract=True, extra=None):
    """The round-trip families of one format: trees, constraints, decorations, all filtered
    by the format's fragment (InFrag) inside the generator."""
    fams = {
        fmt + '-Tree': {
            'quick':    dict(consts=dict(N=5, MaxKids=3, MinHi=0, AllowStar=False, Fmt=fmt), invariants=tlc.GEN_INVARIANTS),
            'thorough': dict(consts=dict(N=6, MaxKids=4, MinHi=0, AllowStar=False, Fmt=fmt), invariants=tlc.GEN_INVARIANTS),
        },
        fmt + '-Ctc': {
            'quick':    dict(consts=dict(N=3, MaxKids=2, MinHi=1, Axes={'ctc'}, MaxCtc=1, CtcDepth=1, CtcBinOps=ops, Fmt=fmt),
                             invariants=tlc.GEN_INVARIANTS),
            'thorough': dict(consts=dict(N=4, MaxKids=3, MinHi=1, Axes={'ctc'}, MaxCtc=1, CtcDepth=1, CtcBinOps=ops, Fmt=fmt),
                             invariants=tlc.GEN_INVARIANTS),
        },
        fmt + '-Ctc2': {   # nesting: all trees of depth 2 over two names
            'quick':    dict(consts=dict(N=2, MaxKids=1, MinHi=1, Axes={'ctc'}, MaxCtc=1, CtcDepth=2, CtcBinOps=ops, Fmt=fmt,
                                         CtcMinFeatures=2),
                             invariants=tlc.GEN_INVARIANTS),
            'thorough': dict(consts=dict(N=2, MaxKids=1, MinHi=1, Axes={'ctc'}, MaxCtc=2, CtcDepth=2,
                                         CtcBinOps=ops, Fmt=fmt, CtcMinFeatures=2),
                             invariants=tlc.GEN_INVARIANTS, simulate=dict(num=4000, depth=4)),
        },
    }
    fams[fmt + '-EqShape'] = {   # (p => q) and (r => s) over all literals of three names: the shape readers give an equivalence
        'quick':    dict(consts=dict(N=3, MaxKids=2, MinHi=1, Axes={'ctc'}, MaxCtc=1, CtcDepth=0, CtcBinOps=set(), CtcEqShape=True,
                                     CtcMinFeatures=3, Fmt=fmt), invariants=tlc.GEN_INVARIANTS, cap=1500),
        'thorough': dict(consts=dict(N=3, MaxKids=2, MinHi=1, Axes={'ctc'}, MaxCtc=1, CtcDepth=0, CtcBinOps=set(), CtcEqShape=True,
                                     CtcMinFeatures=3, Fmt=fmt), invariants=tlc.GEN_INVARIANTS, cap=15000),
    }
    fams[fmt + '-Deep'] = {   # walks: constraints grown to depth 3
        'quick':    dict(consts=dict(N=4, MaxKids=2, MinHi=1, Axes={'ctc'}, MaxCtc=2, CtcDepth=1, CtcBinOps=ops, CtcMinFeatures=3, CtcGrow=2,
                                     Fmt=fmt), invariants=tlc.GEN_INVARIANTS, simulate=dict(num=400, depth=9)),
        'thorough': dict(consts=dict(N=4, MaxKids=2, MinHi=1, Axes={'ctc'}, MaxCtc=2, CtcDepth=1, CtcBinOps=ops, CtcMinFeatures=3, CtcGrow=2,
                                     Fmt=fmt), invariants=tlc.GEN_INVARIANTS, simulate=dict(num=4000, depth=9)),
    }
    fams[fmt + '-Dup'] = {   # two constraints over two names: every pair, so also identical ones and ones equal up to the names' letter case
        'quick':    dict(consts=dict(N=2, MaxKids=1, MinHi=1, Axes={'ctc'}, MaxCtc=2, CtcDepth=1, CtcBinOps={'IMPLIES'}, CtcMinFeatures=2,
                                     Fmt=fmt), invariants=tlc.GEN_INVARIANTS, cap=500),
        'thorough': dict(consts=dict(N=2, MaxKids=1, MinHi=1, Axes={'ctc'}, MaxCtc=2, CtcDepth=1, CtcBinOps={'IMPLIES', 'OR'}, CtcMinFeatures=2,
                                     Fmt=fmt), invariants=tlc.GEN_INVARIANTS, cap=4000),
    }
    chain_ops = sorted(set(ops) & {'AND', 'OR', 'XOR', 'EQUIVALENCE'})
    fams[fmt + '-Chain'] = {   # one long left-nested chain of an associative operator (6 to 12 literals over three names)
        t: dict(consts=dict(N=3, MaxKids=2, MinHi=1, Axes={'ctc'}, MaxCtc=1, CtcDepth=0, CtcBinOps=set(), CtcMinFeatures=3,
                            CtcChains={(o, n) for o in chain_ops for n in ((6, 7, 10) if t == 'quick' else (5, 6, 7, 9, 10, 12))}, Fmt=fmt),
                invariants=tlc.GEN_INVARIANTS, cap=400 if t == 'quick' else 3000) for t in ('quick', 'thorough')}
    if star:
        fams[fmt + '-Star'] = {
            'quick':    dict(consts=dict(N=4, MaxKids=3, MinHi=1, AllowStar=True, Fmt=fmt), invariants=tlc.GEN_INVARIANTS),
            'thorough': dict(consts=dict(N=5, MaxKids=3, MinHi=1, AllowStar=True, Fmt=fmt), invariants=tlc.GEN_INVARIANTS),
        }
    if abstract:
        fams[fmt + '-Abs'] = {
            'quick':    dict(consts=dict(N=4, MaxKids=3, MinHi=1, Axes={'abs'}, Fmt=fmt), invariants=tlc.GEN_INVARIANTS),
            'thorough': dict(consts=dict(N=5, MaxKids=3, MinHi=1, Axes={'abs'}, Fmt=fmt), invariants=tlc.GEN_INVARIANTS),
        }
    if attr_vals:
        fams[fmt + '-Attr'] = {
            'quick':    dict(consts=dict(N=2, MaxKids=1, MinHi=1, Axes={'attr'}, AttrNames=['a1'], AttrVals=attr_vals, Fmt=fmt),
                             invariants=tlc.GEN_INVARIANTS),
            'thorough': dict(consts=dict(N=3, MaxKids=2, MinHi=1, Axes={'attr'}, AttrNames=['a1', 'a2'], AttrVals=attr_vals, Fmt=fmt),
                             invariants=tlc.GEN_INVARIANTS, simulate=dict(num=3000, depth=8)),
        }
    if extra:
        fams.update(extra)
    # thorough budget: sampled (seeded) above this many cases per family - UVL costs ~20 ms per document
    for spec in fams.values():
        spec['thorough'].setdefault('cap', 5000 if fmt == 'uvl' else 15000)
    return fams


FAMILIES.update(fmt_families('json', LOGIC_BIN, ATTR_VALS_JSON, star=True))

FAMILIES.update(fmt_families('glencoe', LOGIC_BIN, None, abstract=False))
FAMILIES.update(fmt_families('fide', ALL_OPS_NOT_XOR, None))
ATTR_VALS_AFM = [{'val': 's:3', 'dom': 'R:i:1..i:5|E:', 'nul': 's:0'},
                 {'val': 's:2', 'dom': 'R:i:0..i:2;i:7..i:9|E:', 'nul': 's:1'},
                 {'val': 's:lo', 'dom': 'R:|E:s:lo,s:hi,s:mid', 'nul': 's:hi'},
                 {'val': 's:1', 'dom': 'R:|E:s:1,s:2', 'nul': 's:2'}]
FAMILIES.update(fmt_families('afm', ALL_OPS_NOT_XOR, ATTR_VALS_AFM, abstract=False))
ATTR_VALS_UVL = [{'val': v, 'dom': '', 'nul': 'n'} for v in
                 ['n', 'b:true', 'b:false', 'i:5', 'i:0', 'i:-5', 'd:1.5', 'd:0.1234567', 'd:-2.25', 'd:0.30000000000000004', 'd:0.3333333333333333', 's:txt', 's:two words', 's:true', 's:static//img',
                  's:word word word word word word word word word word word word word word word word word word word word word word word word word word end',
                  'l:[i:1,i:2]', 'l:[i:5]', 'l:[s:x,d:2.5,i:-3]', 'm:{s:k=i:1}', 'm:{s:k=m:{s:j=s:v}}']]
FAMILIES.update(fmt_families('uvl', ALL_OPS_NOT_XOR, ATTR_VALS_UVL, star=True, extra={
    'uvl-Type': {
        'quick':    dict(consts=dict(N=3, MaxKids=2, MinHi=1, Axes={'type'}, Types={'Integer', 'Real', 'String'}, Fmt='uvl'),
                         invariants=tlc.GEN_INVARIANTS),
        'thorough': dict(consts=dict(N=4, MaxKids=3, MinHi=1, Axes={'type'}, Types={'Integer', 'Real', 'String'}, Fmt='uvl'),
                         invariants=tlc.GEN_INVARIANTS),
    },
    'uvl-FCard': {
        'quick':    dict(consts=dict(N=3, MaxKids=2, MinHi=1, Axes={'fcard'}, FCards={(0, 1), (2, 3), (1, -1), (2, 2)}, Fmt='uvl'),
                         invariants=tlc.GEN_INVARIANTS),
        'thorough': dict(consts=dict(N=4, MaxKids=3, MinHi=1, Axes={'fcard'}, FCards={(0, 1), (2, 3), (1, -1), (2, 2)}, Fmt='uvl'),
                         invariants=tlc.GEN_INVARIANTS),
    },
    'uvl-Arith': {
        'quick':    dict(consts=dict(N=2, MaxKids=1, MinHi=1, Axes={'ctc'}, MaxCtc=1, CtcDepth=0, CtcBinOps=set(), CtcArith=True,
                                     CtcMinFeatures=2, Fmt='uvl'), invariants=tlc.GEN_INVARIANTS),
        'thorough': dict(consts=dict(N=3, MaxKids=2, MinHi=1, Axes={'ctc'}, MaxCtc=1, CtcDepth=0, CtcBinOps=set(), CtcArith=True,
                                     CtcMinFeatures=3, Fmt='uvl'), invariants=tlc.GEN_INVARIANTS),
    },
}))

FAMILIES['uvl-Ctc2']['quick']['cap'] = 3000      # UVL parsing is ~20 ms per document
FAMILIES['json-Ctc2']['quick']['cap'] = 6000
FAMILIES['glencoe-Ctc2']['quick']['cap'] = 6000

FAMILIES.update({
    'C12-Tree': {
        'quick':    dict(consts=dict(N=4, MaxKids=3, MinHi=1), invariants=tlc.GEN_INVARIANTS),
        'thorough': dict(consts=dict(N=5, MaxKids=4, MinHi=1), invariants=tlc.GEN_INVARIANTS, cap=250),
    },
    'C12-Ctc': {
        'quick':    dict(consts=dict(N=3, MaxKids=2, MinHi=1, Axes={'ctc'}, MaxCtc=1, CtcDepth=1, CtcBinOps=LOGIC_BIN, CtcMinFeatures=3),
                         invariants=tlc.GEN_INVARIANTS, cap=150),
        'thorough': dict(consts=dict(N=3, MaxKids=2, MinHi=1, Axes={'ctc'}, MaxCtc=1, CtcDepth=1, CtcBinOps=LOGIC_BIN, CtcMinFeatures=2),
                         invariants=tlc.GEN_INVARIANTS, cap=300),
    },
    'C12-Ctc2': {   # two constraints carrying the same name
        'quick':    dict(consts=dict(N=2, MaxKids=1, MinHi=1, Axes={'ctc'}, MaxCtc=2, CtcDepth=1, CtcBinOps={'IMPLIES', 'EXCLUDES'},
                                     CtcMinFeatures=2, CtcSameName=True), invariants=tlc.GEN_INVARIANTS, cap=80),
        'thorough': dict(consts=dict(N=2, MaxKids=1, MinHi=1, Axes={'ctc'}, MaxCtc=2, CtcDepth=1, CtcBinOps={'IMPLIES', 'EXCLUDES'},
                                     CtcMinFeatures=2, CtcSameName=True), invariants=tlc.GEN_INVARIANTS, cap=250),
    },
    'C12-Attr': {
        'quick':    dict(consts=dict(N=2, MaxKids=1, MinHi=1, Axes={'attr', 'abs'}, AttrNames=['a1'], AttrVals=ATTR_VALS_JSON[:6]),
                         invariants=tlc.GEN_INVARIANTS, cap=60),
        'thorough': dict(consts=dict(N=2, MaxKids=1, MinHi=1, Axes={'attr', 'abs'}, AttrNames=['a1'], AttrVals=ATTR_VALS_JSON),
                         invariants=tlc.GEN_INVARIANTS, cap=200),
    },
})

FAMILIES.update({
    'Clafer-Tree': {
        'quick':    dict(consts=dict(N=5, MaxKids=3, MinHi=0), invariants=tlc.GEN_INVARIANTS),
        'thorough': dict(consts=dict(N=6, MaxKids=4, MinHi=0), invariants=tlc.GEN_INVARIANTS),
    },
    'Clafer-Ctc': {
        'quick':    dict(consts=dict(N=4, MaxKids=3, MinHi=1, Axes={'ctc'}, MaxCtc=1, CtcDepth=1, CtcBinOps=LOGIC_BIN, CtcMinFeatures=3),
                         invariants=tlc.GEN_INVARIANTS),
        'thorough': dict(consts=dict(N=5, MaxKids=3, MinHi=1, Axes={'ctc'}, MaxCtc=1, CtcDepth=1, CtcBinOps=LOGIC_BIN, CtcMinFeatures=3),
                         invariants=tlc.GEN_INVARIANTS, cap=60000),
    },
    'Clafer-Ctc2': {   # nesting: every tree of depth 2 over two names
        'quick':    dict(consts=dict(N=2, MaxKids=1, MinHi=1, Axes={'ctc'}, MaxCtc=1, CtcDepth=2, CtcBinOps=LOGIC_BIN, CtcMinFeatures=2),
                         invariants=tlc.GEN_INVARIANTS, cap=4000),
        'thorough': dict(consts=dict(N=2, MaxKids=1, MinHi=1, Axes={'ctc'}, MaxCtc=1, CtcDepth=2, CtcBinOps=LOGIC_BIN, CtcMinFeatures=2),
                         invariants=tlc.GEN_INVARIANTS),
    },
    'Deep-Ctc': {   # walks: one or two constraints grown to depth 3-4 over three or four features
        'quick':    dict(consts=dict(N=4, MaxKids=3, MinHi=1, Axes={'ctc'}, MaxCtc=2, CtcDepth=1, CtcBinOps=LOGIC_BIN, CtcMinFeatures=3,
                                     CtcGrow=3), invariants=tlc.GEN_INVARIANTS, simulate=dict(num=600, depth=11)),
        'thorough': dict(consts=dict(N=4, MaxKids=3, MinHi=1, Axes={'ctc'}, MaxCtc=2, CtcDepth=1, CtcBinOps=LOGIC_BIN, CtcMinFeatures=3,
                                     CtcGrow=2), invariants=tlc.GEN_INVARIANTS, simulate=dict(num=6000, depth=12)),
    },
    'Clafer-Attr': {
        'quick':    dict(consts=dict(N=2, MaxKids=1, MinHi=1, Axes={'attr'}, AttrNames=['a1', 'a2'],
                                     AttrVals=[{'val': v, 'dom': '', 'nul': 'n'} for v in ['b:true', 'i:5', 'd:1.5', 's:txt']]),
                         invariants=tlc.GEN_INVARIANTS, cap=1500),
        'thorough': dict(consts=dict(N=3, MaxKids=2, MinHi=1, Axes={'attr'}, AttrNames=['a1', 'a2'],
                                     AttrVals=[{'val': v, 'dom': '', 'nul': 'n'} for v in ['b:true', 'i:5', 'd:1.5', 's:txt']]),
                         invariants=tlc.GEN_INVARIANTS, cap=20000),
    },
})

# reference models for the independent emitters (C04, C09) and the surface-choice vectors
UVL_SYNTAX_OPS = {'AND', 'OR', 'IMPLIES', 'EQUIVALENCE'}
FAMILIES.update({
    'Ref-uvl-Ctc': {
        t: dict(consts=dict(N=3, MaxKids=2, MinHi=1, Axes={'ctc'}, MaxCtc=2, CtcDepth=1, CtcBinOps=UVL_SYNTAX_OPS, CtcMinFeatures=3,
                            Fmt='uvl'), invariants=tlc.GEN_INVARIANTS, simulate=dict(num=400, depth=6)) for t in ('quick', 'thorough')},
    'Ref-uvl-Arith': {
        t: dict(consts=dict(N=2, MaxKids=1, MinHi=1, Axes={'ctc', 'type'}, Types={'Integer'}, MaxCtc=1, CtcDepth=0, CtcBinOps=set(),
                            CtcArith=True, CtcMinFeatures=2, Fmt='uvl'), invariants=tlc.GEN_INVARIANTS, cap=400) for t in ('quick', 'thorough')},
    'Ref-Mix': {   # mixtures of every decoration, by simulation
        t: dict(consts=dict(N=6, MaxKids=3, MinHi=1, AllowStar=True, Axes={'abs', 'type', 'fcard', 'attr', 'ctc'},
                            Types={'Integer', 'Real', 'String'}, FCards={(0, 1), (2, 3), (1, -1), (2, 2)}, AttrNames=['a1', 'a2'],
                            AttrVals=ATTR_VALS_UVL, MaxCtc=2, CtcDepth=1, CtcBinOps=UVL_SYNTAX_OPS, CtcMinFeatures=4, CtcArith=True,
                            Fmt='uvl', MaxLevel=14),
                invariants=tlc.GEN_INVARIANTS, simulate=dict(num=(150 if t == 'quick' else 1500), depth=14)) for t in ('quick', 'thorough')},
})


def surface(dims, brokens, pool):
    consts = dict(DimNames=set(dims), DimVals=tlc.StrFun({k: set(v) for k, v in dims.items()}),
                  Defaults=tlc.StrFun({k: v[0] for k, v in dims.items()}), Brokens=set(brokens) | {'none'}, Pool=pool)
    return {t: dict(module='FMSurface', defaults=False, consts=consts, invariants=['TypeOK']) for t in ('quick', 'thorough')}


B = ['0', '1']
FAMILIES['Surface-uvl'] = surface({'quote': B, 'parens': B, 'merge': B, 'comments': B, 'flat': B,
                                   'header': ['none', 'namespace', 'imports', 'include', 'all']},
                                  ['bracket', 'operator', 'section', 'indent', 'badchar'], 18)   # pool size 18

FAMILIES['Surface-fide'] = surface({'order': B, 'optattr': ['implicit', 'explicit'], 'nary': B, 'extras': B, 'pretty': B, 'noctc': B, 'groupmand': B},
                                   ['unknownrule'], 18)
FAMILIES['Surface-xml'] = surface({'order': B, 'pretty': B, 'relnames': B, 'cardfirst': B, 'setsingle': ['0']}, ['duplicate'], 12)
FAMILIES['Surface-afm'] = surface({'parens': B, 'order': B}, ['relational'], 14)
FAMILIES['Surface-glencoe'] = surface({'ids': B, 'order': B, 'extras': B, 'minmax': B, 'pretty': B, 'nary': B}, ['unknowntype'], 18)
FAMILIES.update({
    'Ref-xml': {t: dict(consts=dict(N=5, MaxKids=3, MinHi=0, Axes={'ctc'}, MaxCtc=2, CtcDepth=1, CtcBinOps={'REQUIRES', 'EXCLUDES'},
                                    CtcMinFeatures=4, MaxLevel=7),
                        invariants=tlc.GEN_INVARIANTS, simulate=dict(num=300, depth=8)) for t in ('quick', 'thorough')},
    'Ref-xml-Over': {t: dict(consts=dict(N=4, MaxKids=2, MinHi=0, OverHi=True), invariants=tlc.GEN_INVARIANTS, cap=400) for t in ('quick', 'thorough')},
    'Ref-xml-Wide': {t: dict(consts=dict(N=13, MaxKids=12, MinHi=1, MaxLevel=2), invariants=tlc.GEN_INVARIANTS) for t in ('quick', 'thorough')},
    'Ref-fide-Ctc3': {t: dict(consts=dict(N=2, MaxKids=1, MinHi=1, Axes={'ctc', 'abs'}, MaxCtc=1, CtcDepth=2, CtcBinOps={'AND', 'OR', 'IMPLIES'},
                                          CtcMinFeatures=2, Fmt='fide'),
                              invariants=tlc.GEN_INVARIANTS) for t in ('quick', 'thorough')},
    'Ref-glencoe-Ctc': {t: dict(consts=dict(N=5, MaxKids=3, MinHi=0, Axes={'ctc'}, MaxCtc=2, CtcDepth=1, CtcBinOps=LOGIC_BIN,
                                            CtcMinFeatures=4, Fmt='glencoe', MaxLevel=8),
                                invariants=tlc.GEN_INVARIANTS, simulate=dict(num=300, depth=8)) for t in ('quick', 'thorough')},
    # one long chain of an associative operator over seven names (the tree is a path of mandatory / optional features)
    'Ref-fide-Chain': {t: dict(consts=dict(N=7, MaxKids=1, MinHi=1, Shape='chain', Axes={'ctc'}, MaxCtc=1, CtcDepth=0, CtcBinOps=set(),
                                           CtcMinFeatures=7, CtcChains={(o, n) for o in ('AND', 'OR') for n in (6, 7, 10, 12)}, Fmt='fide'),
                               invariants=tlc.GEN_INVARIANTS, cap=300) for t in ('quick', 'thorough')},
    'Ref-glencoe-Chain': {t: dict(consts=dict(N=7, MaxKids=1, MinHi=1, Shape='chain', Axes={'ctc'}, MaxCtc=1, CtcDepth=0, CtcBinOps=set(),
                                              CtcMinFeatures=7, CtcChains={(o, n) for o in ('AND', 'OR', 'XOR') for n in (6, 7, 10, 12)},
                                              Fmt='glencoe'),
                                  invariants=tlc.GEN_INVARIANTS, cap=300) for t in ('quick', 'thorough')},
    'Ref-afm-Mix': {t: dict(consts=dict(N=5, MaxKids=3, MinHi=0, Axes={'ctc', 'attr'}, AttrNames=['a1'], AttrVals=ATTR_VALS_AFM, MaxCtc=2,
                                        CtcDepth=1, CtcBinOps=ALL_OPS_NOT_XOR, CtcMinFeatures=3, Fmt='afm', MaxLevel=9),
                            invariants=tlc.GEN_INVARIANTS, simulate=dict(num=300, depth=9)) for t in ('quick', 'thorough')},
})

# Edit histories: a built model is observed, edited IN PLACE through public attributes (cardinality, add / remove a
# child, abstract flag, attribute value, remove a constraint, root operator of a constraint, rename), and observed again
# by the same objects.  Cases are the states after >= 1 edit; `base` is the model before the first edit.
EDIT_KINDS = {'card', 'addchild', 'rmkid', 'replkid', 'move', 'reown', 'import', 'abs', 'rmctc', 'ctcop', 'rename'}


def edit_families(prefix, fmt='', ops=frozenset({'IMPLIES', 'OR', 'EXCLUDES', 'AND'}), abstract=True, attrs=None, star=False,
                  q=(900, 150), t=(8000, 2000)):
    kinds = set(EDIT_KINDS) - (set() if abstract else {'abs'})
    axes = {'ctc'} | ({'abs'} if abstract else set())
    walk = dict(N=6, MaxKids=3, MinHi=0, AllowStar=star, Axes=axes | ({'attr'} if attrs else set()), AttrNames=['a1'],
                AttrVals=attrs or set(), MaxCtc=2, CtcDepth=1, CtcBinOps=set(ops), CtcMinFeatures=3, CtcGrow=1,
                MaxEdits=3, EditKinds=kinds | ({'attrval', 'attrname', 'rmattr'} if attrs else set()), Fmt=fmt)
    one = dict(N=3, MaxKids=2, MinHi=0, AllowStar=False, Axes={'ctc'}, MaxCtc=1, CtcDepth=1, CtcBinOps=set(ops), CtcMinFeatures=2,
               MaxEdits=1, EditKinds=kinds - {'abs'}, Fmt=fmt)
    struct = dict(N=4, MaxKids=3, MinHi=0, AllowStar=False, MaxEdits=1, EditKinds=kinds - {'abs', 'rmctc', 'ctcop', 'import'}, Fmt=fmt)
    return {
        prefix + 'Edit1': {    # exhaustive: every single edit of every model with up to three features and one constraint
            'quick':    dict(consts=one, invariants=tlc.GEN_INVARIANTS, cap=q[0]),
            'thorough': dict(consts=one, invariants=tlc.GEN_INVARIANTS, cap=t[0]),
        },
        prefix + 'Edit1s': {   # exhaustive: every single structural edit of every tree with up to four features
            'quick':    dict(consts=struct, invariants=tlc.GEN_INVARIANTS, cap=max(150, q[0] // 2)),
            'thorough': dict(consts=struct, invariants=tlc.GEN_INVARIANTS, cap=t[0]),
        },
        prefix + 'EditWalk': {  # seeded walks: larger models, up to three edits
            'quick':    dict(consts=walk, invariants=tlc.GEN_INVARIANTS, simulate=dict(num=q[1], depth=16), cap=q[0]),
            'thorough': dict(consts=dict(walk, N=7), invariants=tlc.GEN_INVARIANTS, simulate=dict(num=t[1], depth=18), cap=t[0]),
        },
    }


FAMILIES.update(edit_families('', ops=LOGIC_BIN))
FAMILIES.update(edit_families('json-', 'json', LOGIC_BIN, attrs=ATTR_VALS_JSON[:7], star=True, q=(500, 100)))
FAMILIES.update(edit_families('uvl-', 'uvl', ALL_OPS_NOT_XOR, attrs=ATTR_VALS_UVL[:8], star=True, q=(300, 80), t=(2500, 800)))
FAMILIES.update(edit_families('afm-', 'afm', ALL_OPS_NOT_XOR, abstract=False, q=(500, 100)))
FAMILIES.update(edit_families('fide-', 'fide', ALL_OPS_NOT_XOR, q=(500, 100)))
FAMILIES.update(edit_families('glencoe-', 'glencoe', LOGIC_BIN, abstract=False, q=(500, 100)))
FAMILIES.update(edit_families('C12-', ops=LOGIC_BIN, q=(60, 40), t=(130, 120)))
FAMILIES['C12-Deep'] = {   # walks: constraints in the and/or/not fragment grown to depth 4 (what CNF conversion rewrites)
    'quick':    dict(consts=dict(N=4, MaxKids=3, MinHi=1, Axes={'ctc'}, MaxCtc=1, CtcDepth=1, CtcBinOps={'AND', 'OR'}, CtcMinFeatures=4, CtcGrow=3),
                     invariants=tlc.GEN_INVARIANTS, simulate=dict(num=150, depth=9), cap=80),
    'thorough': dict(consts=dict(N=4, MaxKids=3, MinHi=1, Axes={'ctc'}, MaxCtc=2, CtcDepth=1, CtcBinOps={'AND', 'OR', 'IMPLIES'}, CtcMinFeatures=4, CtcGrow=3),
                     invariants=tlc.GEN_INVARIANTS, simulate=dict(num=1500, depth=10), cap=100),
}

# Cross-format chains (x-<a>-<b>-*): models inside BOTH fragments; the harness writes and reads them
# with format a, and the model reader a built is then the source of the write/read history of format b.
RT_OPS = {'uvl': ALL_OPS_NOT_XOR, 'json': LOGIC_BIN, 'afm': ALL_OPS_NOT_XOR, 'fide': ALL_OPS_NOT_XOR, 'glencoe': LOGIC_BIN}
RT_ABS = {'uvl', 'json', 'fide'}
RT_PLAINATTR = {'uvl', 'json'}
ATTR_VALS_CHAIN = [{'val': v, 'dom': '', 'nul': 'n'} for v in ['n', 'b:true', 'i:5', 'd:1.5', 's:txt', 's:two words', 'l:[i:1,s:x]']]


def chain_families(a, b):
    ops = RT_OPS[a] & RT_OPS[b]
    axes = {'ctc'} | ({'abs'} if {a, b} <= RT_ABS else set()) | ({'attr'} if {a, b} <= RT_PLAINATTR else set())
    star = {a, b} <= {'uvl', 'json'}
    walk = dict(N=5, MaxKids=3, MinHi=0, AllowStar=star, Axes=axes, AttrNames=['a1', 'a2'],
                AttrVals=ATTR_VALS_CHAIN if 'attr' in axes else set(), MaxCtc=2, CtcDepth=1, CtcBinOps=ops,
                CtcMinFeatures=3, CtcGrow=1, Fmt=b, Fmt2=a)
    return {
        'x-%s-%s-Tree' % (a, b): {
            'quick':    dict(consts=dict(N=4, MaxKids=3, MinHi=0, AllowStar=star, Fmt=b, Fmt2=a), invariants=tlc.GEN_INVARIANTS, cap=250),
            'thorough': dict(consts=dict(N=5, MaxKids=3, MinHi=0, AllowStar=star, Fmt=b, Fmt2=a), invariants=tlc.GEN_INVARIANTS, cap=2500),
        },
        'x-%s-%s-Walk' % (a, b): {
            'quick':    dict(consts=walk, invariants=tlc.GEN_INVARIANTS, simulate=dict(num=120, depth=12), cap=350),
            'thorough': dict(consts=walk, invariants=tlc.GEN_INVARIANTS, simulate=dict(num=1500, depth=14), cap=3000),
        },
    }


for _a in RT_OPS:
    for _b in RT_OPS:
        if _a != _b:
            FAMILIES.update(chain_families(_a, _b))

_cache = {}


def generate(fam, tier, seed, workdir):
    key = (fam, tier, seed)
    if key in _cache:
        return _cache[key]
    spec = FAMILIES[fam][tier]
    if spec['consts'].get('Fmt'):
        spec = dict(spec, emit_all=False)
    if spec.get('walks_ast'):
        spec = dict(spec, walks=spec['consts']['Walks'], emit_all=False, consts=dict(spec['consts'], Seed=seed))
    if spec.get('simulate') and spec.get('module', 'FM') == 'FM':     # seeded random walks, not -simulate
        spec = dict(spec, walks=spec['simulate']['num'], emit_all=False,
                    consts=dict(spec['consts'], Walks=spec['simulate']['num'], MaxLevel=spec['simulate']['depth'], Seed=seed))
        spec.pop('simulate')
    cases, st = tlc.run_generator(workdir, spec['consts'], module=spec.get('module', 'FM'),
                                  defaults=spec.get('defaults', True), invariants=spec.get('invariants', ()),
                                  simulate=spec.get('simulate'), seed=seed,
                                  constraint=spec.get('constraint'), extra_defs=spec.get('extra_defs', ''),
                                  spec_name=spec.get('spec', 'Spec'), emit_name=spec.get('emit', 'Emit'),
                                  emit_all=spec.get('emit_all', True))
    if spec.get('walks'):
        st['simulate'] = {'random_walks': spec['walks']}
    if spec['consts'].get('MaxEdits'):      # edit histories: the cases are the states after at least one edit
        cases = [c for c in cases if 'base' in c]
    _cache[key] = (cases, st)
    return cases, st
