"""./check --replay <file>: re-run one recorded failing case against the current /repo tree
and have TLC judge the fresh trace.  exit 1 + VIOLATION line if the property's clauses still
fail (known findings are filtered as in a normal run), 0 otherwise."""
import json
import os
import shutil
import sys

import findings
import names
import scripts
import tlc


def main(path):
    with open(path) as f:
        rp = json.load(f)
    prop, tier, seed = rp['property'], rp['tier'], rp['seed']
    nmd = rp['meta']['naming']
    nm = names.Naming(tuple(nmd['classes']), nmd['k'], nmd['seed'], attr_classes=tuple(nmd.get('attr_classes', ['attrlow'])))
    work = os.path.join(os.path.dirname(os.path.dirname(os.path.abspath(__file__))), '.work', 'replay-%d' % os.getpid())
    shutil.rmtree(work, ignore_errors=True)
    os.makedirs(work)
    os.environ['VERIF_IODIR'] = os.path.join(work, 'io')
    case = dict(rp['case'], _cid=rp.get('cid', ''))
    events, extra = scripts.PROPS[prop]['script'](case, nm, tier, seed)
    trace = {'id': rp['trace_id'], 'ev': events}
    shard = os.path.join(work, 'shard.ndjson')
    with open(shard, 'w') as f:
        f.write(json.dumps(trace) + '\n')
    fails, _ = tlc.validate_shard(os.path.join(work, 'tv'), shard)
    kf = findings.load()
    meta = dict(rp['meta'], case=case)
    bad, known = [], []
    for fr in fails:
        ev = events[fr['step'] - 1]
        for clause in fr['fails']:
            if not clause.startswith(prop + '.'):
                continue
            ent = findings.match(kf, prop, clause, meta, ev, trace)
            (known if ent else bad).append((fr['step'], ev['a'], clause))
    for step, a, clause in known:
        print('KNOWN-FINDING: property=%s step %d (%s) clause %s' % (prop, step, a, clause))
    for step, a, clause in bad:
        print('step %d (%s): clause %s fails' % (step, a, clause))
    shutil.rmtree(work, ignore_errors=True)
    if bad:
        print('VIOLATION property=%s replay=%s' % (prop, path))
        return 1
    print('replay of %s: no clause of %s fails on the current tree (%d events judged)' % (rp['trace_id'], prop, len(events)))
    return 0
