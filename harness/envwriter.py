#!/venv/bin/python
"""Fresh-interpreter leg of C12: build every case and serialise it with every
writer under THIS process's environment (hash seed, locale, default encoding);
print one JSON line per case: the Write events.  Invoked by scripts.prepare_c12."""
import json
import os
import sys

HERE = os.path.dirname(os.path.abspath(__file__))
sys.path.insert(0, HERE)
sys.path.insert(0, os.environ.get('VERIF_REPO', '/repo'))   # default: /repo's working tree

import names  # noqa: E402
import formats  # noqa: E402
from build import Builder  # noqa: E402


def main():
    cases_path, out_path, envid = sys.argv[1], sys.argv[2], sys.argv[3]
    with open(cases_path) as f, open(out_path, 'w') as out:
        for line in f:
            c = json.loads(line)
            nm = names.Naming(tuple(c['naming']['classes']), c['naming']['k'], c['naming']['seed'])
            b = Builder(nm, log=False)
            b.run(c['hist'])
            evs = []
            for fmt in c['writers']:
                ev, path, _ = formats.write_event(fmt, b.model, nm)
                ev['args']['env'] = envid
                evs.append(ev)
                if os.path.exists(path):
                    os.remove(path)
            out.write(json.dumps({'cid': c['cid'], 'k': c['k'], 'ev': evs}) + '\n')


if __name__ == '__main__':
    main()
