"""Strict parsers for exactly the target syntax of the three export languages
(SXFM/SPLOT, propositional .exp, the Clafer subset).  Syntax only: an unknown
token makes the document unparseable; all meaning is in spec/FMExports.tla."""
import re

NIL = {'op': 'NIL'}


class ParseError(Exception):
    pass


def var(n):
    return {'op': 'VAR', 'v': n, 'l': NIL, 'r': NIL}


def un(o, a):
    return {'op': o, 'v': '', 'l': a, 'r': NIL}


def bin_(o, a, b):
    return {'op': o, 'v': '', 'l': a, 'r': b}


IDENT = r'(?:"[^"\n]*"|[A-Za-z0-9_]+)'


def unq(tok):
    return tok[1:-1] if tok.startswith('"') else tok


# --------------------------------------------------------------------------- SXFM
def parse_splot(text, naming):
    lines = text.split('\n')
    if len(lines) < 6 or not lines[0].startswith('<?xml') or not re.fullmatch(r'<feature_model name="[^"]*">', lines[1]):
        raise ParseError('bad header')
    try:
        t0, t1 = lines.index('<feature_tree>'), lines.index('</feature_tree>')
        c0, c1 = lines.index('<constraints>'), lines.index('</constraints>')
    except ValueError:
        raise ParseError('missing section')
    if not (t0 == 2 and t1 < c0 and c0 == t1 + 1 and lines[c1 + 1:] == ['</feature_model>']):
        raise ParseError('bad section layout')
    ids, edges, groups = [], [], []
    root = ''
    stack = []   # (depth, kind 'f'|'g', id or group index)
    for ln in lines[t0 + 1:t1]:
        depth = len(ln) - len(ln.lstrip('\t'))
        body = ln[depth:]
        m = re.fullmatch(r':r (%s) \((%s)\)' % (IDENT, IDENT), body)
        if m:
            if depth != 0 or root:
                raise ParseError('misplaced root: ' + ln)
            root = naming.abs(unq(m.group(2)))
            ids.append(root)
            stack = [(0, 'f', root)]
            continue
        if not root:
            raise ParseError('tree does not start with :r')
        while stack and stack[-1][0] >= depth:
            stack.pop()
        if not stack:
            raise ParseError('bad indentation: ' + ln)
        pdepth, pkind, pref = stack[-1]
        if pdepth != depth - 1:
            raise ParseError('indentation jumps: ' + ln)
        m = re.fullmatch(r':([mo]) (%s) \((%s)\)' % (IDENT, IDENT), body)
        if m:
            if pkind != 'f':
                raise ParseError(':m/:o inside a group: ' + ln)
            fid = naming.abs(unq(m.group(3)))
            ids.append(fid)
            edges.append({'kind': m.group(1), 'parent': pref, 'child': fid})
            stack.append((depth, 'f', fid))
            continue
        m = re.fullmatch(r':g \[(\d+),(\d+|\*)\]', body)
        if m:
            if pkind != 'f':
                raise ParseError('group inside a group: ' + ln)
            groups.append({'parent': pref, 'lo': int(m.group(1)), 'hi': -1 if m.group(2) == '*' else int(m.group(2)),
                           'members': []})
            stack.append((depth, 'g', len(groups) - 1))
            continue
        m = re.fullmatch(r': (%s) \((%s)\)' % (IDENT, IDENT), body)
        if m:
            if pkind != 'g':
                raise ParseError('group member outside a group: ' + ln)
            fid = naming.abs(unq(m.group(2)))
            ids.append(fid)
            groups[pref]['members'].append(fid)
            stack.append((depth, 'f', fid))
            continue
        raise ParseError('unknown tree line: ' + ln)
    clauses = []
    for ln in lines[c0 + 1:c1]:
        m = re.fullmatch(r'\tC\d+: (.*)', ln)
        if not m:
            raise ParseError('unknown constraint line: ' + ln)
        lits = []
        for part in m.group(1).split(' or '):
            mm = re.fullmatch(r'(~?)(%s)' % IDENT, part)
            if not mm:
                raise ParseError('bad literal: ' + part)
            lits.append({'neg': mm.group(1) == '~', 'id': naming.abs(unq(mm.group(2)))})
        clauses.append(lits)
    for g in groups:
        if not g['members']:
            raise ParseError('empty group')
    return {'root': root, 'ids': ids, 'edges': edges, 'groups': groups, 'clauses': clauses}


# --------------------------------------------------------------------------- propositional .exp
PL_TOKEN = re.compile(r'\s*(<->|->|\(|\)|"[^"\n]*"|[A-Za-z0-9_]+)')
PL_BIN = [('<->', 'EQUIVALENCE'), ('->', 'IMPLIES'), ('or', 'OR'), ('and', 'AND')]   # loosest first


def pl_tokens(line):
    pos, out = 0, []
    line = line.rstrip()
    while pos < len(line):
        m = PL_TOKEN.match(line, pos)
        if not m:
            raise ParseError('bad token at %d in %r' % (pos, line))
        out.append(m.group(1))
        pos = m.end()
    return out


def parse_pl_formula(line, naming, stats):
    toks = pl_tokens(line)
    pos = [0]

    def peek():
        return toks[pos[0]] if pos[0] < len(toks) else None

    def take():
        pos[0] += 1
        return toks[pos[0] - 1]

    def level(i):
        if i == len(PL_BIN):
            return unary()
        sym, op = PL_BIN[i]
        left = level(i + 1)
        while peek() == sym:
            take()
            right = level(i + 1)
            left = bin_(op, left, right)
        return left

    def unary():
        t = peek()
        if t is None:
            raise ParseError('unexpected end in %r' % line)
        if t == 'not':
            take()
            return un('NOT', unary())
        if t == '(':
            take()
            e = level(0)
            if peek() != ')':
                raise ParseError('missing ) in %r' % line)
            take()
            return e
        if t in (')', '->', '<->', 'and', 'or'):
            raise ParseError('unexpected %r in %r' % (t, line))
        take()
        return var(naming.abs(unq(t)))

    e = level(0)
    if pos[0] != len(toks):
        raise ParseError('trailing tokens in %r' % line)
    return e


def parse_pl(text, naming):
    stats = {}
    formulas = [parse_pl_formula(ln, naming, stats) for ln in text.split('\n')]
    if not formulas:
        raise ParseError('empty document')
    return {'formulas': formulas}


# --------------------------------------------------------------------------- Clafer subset
CL_TOKEN = re.compile(r'\s*(<=>|=>|&&|\|\||!|\(|\)|xor\b|not\b|"[^"\n]*"|[A-Za-z0-9_]+)')
CL_BIN = [('<=>', 'EQUIVALENCE'), ('=>', 'IMPLIES'), ('||', 'OR'), ('xor', 'XOR'), ('&&', 'AND')]


def parse_clafer_expr(text, naming):
    pos, toks = 0, []
    while pos < len(text):
        m = CL_TOKEN.match(text, pos)
        if not m:
            raise ParseError('bad token at %d in %r' % (pos, text))
        toks.append(m.group(1))
        pos = m.end()
    p = [0]

    def peek():
        return toks[p[0]] if p[0] < len(toks) else None

    def take():
        p[0] += 1
        return toks[p[0] - 1]

    def level(i):
        if i == len(CL_BIN):
            return unary()
        sym, op = CL_BIN[i]
        left = level(i + 1)
        while peek() == sym:
            take()
            left = bin_(op, left, level(i + 1))
        return left

    def unary():
        t = peek()
        if t is None:
            raise ParseError('unexpected end in %r' % text)
        if t in ('!', 'not'):
            take()
            return un('NOT', unary())
        if t == '(':
            take()
            e = level(0)
            if peek() != ')':
                raise ParseError('missing ) in %r' % text)
            take()
            return e
        if t in (')', '<=>', '=>', '&&', '||', 'xor'):
            raise ParseError('unexpected %r in %r' % (t, text))
        take()
        return var(naming.abs(unq(t)))

    e = level(0)
    if p[0] != len(toks):
        raise ParseError('trailing tokens in %r' % text)
    return e


def parse_clafer(text, naming):
    lines = text.split('\n')
    i = 0
    decls = []
    if lines and lines[0] == 'abstract AttributedFeature':
        i = 1
        while i < len(lines) and lines[i].startswith('\t'):
            m = re.fullmatch(r'\t(\S.*?) -> (boolean|string|integer|double)', lines[i])
            if not m:
                raise ParseError('bad attribute declaration: ' + lines[i])
            decls.append({'name': naming.abs(unq(m.group(1))), 'raw_quoted': m.group(1).startswith('"'),
                          'type': m.group(2)})
            i += 1
    if i >= len(lines) or lines[i] != '':
        raise ParseError('missing blank line before the hierarchy')
    i += 1
    nodes, ctcs = [], []
    stack = []
    inst = ''
    seen_root = False
    while i < len(lines):
        ln = lines[i]
        i += 1
        if ln == '':
            continue
        depth = len(ln) - len(ln.lstrip('\t'))
        body = ln[depth:]
        m = re.fullmatch(r'\[(%s) = (.*)\]' % IDENT, body)
        if m and depth > 0 and seen_root:
            while stack and stack[-1][0] >= depth:
                stack.pop()
            if not stack:
                raise ParseError('attribute outside a clafer: ' + ln)
            nodes[stack[-1][1]]['attrs'].append({'name': naming.abs(unq(m.group(1))),
                                                 'quoted': m.group(1).startswith('"'), 'val': m.group(2)})
            continue
        if depth == 0 and body.startswith('[') and body.endswith(']') and seen_root:
            ctcs.append(parse_clafer_expr(body[1:-1], naming))
            continue
        m = re.fullmatch(r'CP : (%s)' % IDENT, body)
        if m and depth == 0:
            inst = naming.abs(unq(m.group(1)))
            continue
        m = re.fullmatch(r'(abstract )?(?:(xor|or|mux|opt|\d+\.\.(?:\d+|\*)) )?(%s)( : AttributedFeature)?( \?)?' % IDENT, body)
        if not m:
            raise ParseError('unknown line: ' + ln)
        if depth == 0:
            if seen_root or not m.group(1):
                raise ParseError('second top-level clafer or non-abstract root: ' + ln)
            seen_root = True
        elif m.group(1):
            raise ParseError('nested abstract clafer: ' + ln)
        while stack and stack[-1][0] >= depth:
            stack.pop()
        if depth > 0 and (not stack or stack[-1][0] != depth - 1):
            raise ParseError('bad indentation: ' + ln)
        g = m.group(2) or ''
        glo, ghi = 0, 0
        if g and g[0].isdigit():
            a, b = g.split('..')
            glo, ghi, g = int(a), (-1 if b == '*' else int(b)), 'card'
        nodes.append({'name': naming.abs(unq(m.group(3))), 'group': g, 'glo': glo, 'ghi': ghi,
                      'opt': bool(m.group(5)), 'attributed': bool(m.group(4)),
                      'parent': nodes[stack[-1][1]]['name'] if stack else '', 'attrs': []})
        stack.append((depth, len(nodes) - 1))
    if not seen_root:
        raise ParseError('no hierarchy')
    return {'decls': decls, 'nodes': nodes, 'ctcs': ctcs, 'inst': inst}


PARSERS = {'splot': parse_splot, 'pl': parse_pl, 'clafer': parse_clafer}
EMPTY_DOC = {
    'splot': {'root': '', 'ids': [], 'edges': [], 'groups': [], 'clauses': []},
    'pl': {'formulas': []},
    'clafer': {'decls': [], 'nodes': [], 'ctcs': [], 'inst': ''},
}
