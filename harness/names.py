"""Concretisation of abstract names (DESIGN 4.2).

TLC works with f1..fN, a1.., c1..; a *naming* maps them to concrete strings
drawn from named character classes and maps whatever comes back from the
library to abstract names again.  An unknown string becomes the token
"?n:<ascii-escaped string>", which is not a member of any model's name set, so
the step fails in the clause that compares names.
"""
import json
import random

# Pools are ordered; each holds at least 12 distinct strings.
POOLS = {
    'plain': ['A1', 'feat_b', 'Core', 'x9', 'Zeta', 'abc', 'Q', 'node7', 'Gamma_2', 'hTTp',
              'k', 'Model3', 'w_w', 'Last'],
    'space': ['a b', 'two words', 'x y z', 'Big Name', 'n 1', 'sp  sp', 'q r', 'The End',
              'a b c d', 'In Out', 'u v', 'left right', 'up down', 'hi lo'],
    # blanks at the edges and repeated blanks
    'edgespace': [' lead', 'trail ', ' both ', 'in  ner', '  two', 'end  ', ' a b ', 'x ', ' y', ' z z', 'w  w ', '  v  ',
                  ' u', 't '],
    # all names equal up to letter case (only for checks where letter case must not matter)
    'casepair': ['abc', 'ABC', 'Abc', 'aBc', 'abC', 'ABc', 'aBC', 'AbC'],
    # names that are substrings of one another
    'substr': ['F1', 'F10', 'F100', 'F', 'F1a', 'aF1', 'Car', 'CarRadio', 'Radio', 'Ca', 'r', 'adi', 'F10a', 'dio'],
    # names that collapse onto one another when non-word characters are normalised
    'nearsame': ['x y', 'x-y', 'x_y', 'x+y', 'x/y', 'x:y', 'x y ', 'x  y', 'x=y', 'x,y', 'x|y', 'x&y'],
    # not in Unicode normal form C (decomposed accents, compatibility characters)
    'nonnfc': ['e\u0301cole', 'A\u030angstrom', '\u212b', '\u2126', 'n\u0303', '\uf900', 'o\u0308', 'c\u0327a', 'u\u0302',
               'i\u0300', '\ufb01', '\u1e9b\u0323'],
    # long names with blanks
    'long': [('%s is a rather long feature name with several words in it so that lines get very wide indeed' % w)
             for w in ['Alpha', 'Beta', 'Gamma', 'Delta', 'Epsilon', 'Zeta', 'Eta', 'Theta', 'Iota', 'Kappa', 'Lambda', 'Mu']],
    # names that coincide once digit runs are read as numbers (natural-sort ties)
    'natural': ['F1', 'F01', 'F001', 'x2', 'x02', 'a10', 'a010', 'n7', 'n07', 'n007', 'r3b', 'r03b', 'F0001', 'x002'],
    # names that look like numbers
    'numeric': ['2024', '1e3', 'nan', 'inf', '007', 'NaN', 'Infinity', '12', '9', '1_000', '0x1F', '10'],
    'punct': ['a-b', 'x:y', '#1', 'a/b', '(p)', 'a,b', 'x=y', 'a&b', 'p|q', 'ab!', 'q?r',
              'a+b', 's;c', 'in//out', 'b[0]', 'c{d}', 'a<b', 'a>b', 'at@', 'pct%', 'til~de'],
    'uvlkw': ['features', 'or', 'mandatory', 'true', 'Integer', 'sum', 'constraints',
              'alternative', 'optional', 'Boolean', 'String', 'Real', 'cardinality', 'avg',
              'len', 'false', 'namespace', 'imports', 'include', 'as'],
    'opword': ['AND', 'OR', 'NOT', 'XOR', 'IMPLIES', 'REQUIRES', 'EXCLUDES', 'EQUIVALENCE',
               'SUM', 'LEN', 'AVG', 'EQUALS', 'ADD', 'MUL', 'SUB', 'DIV', 'LOWER', 'GREATER'],
    'digit0': ['1a', '2b', '3rd', '42', '0x', '7up', '9lives', '10', '5_5', '6six', '8',
               '11th', '123abc', '00'],
    'under0': ['_a', '_b1', '__c', '_D', '_e_', '_f9', '_g', '_H2', '_i', '_j_k', '_l', '_m',
               '_n0', '_o'],
    'nonascii': ['café', 'naïve', 'über', 'señor', 'αβ', '日本', 'grüß',
                 'ångström', 'Жук', 'pâté', 'été', 'øre', 'ça', 'łódź'],
    # AFM WORD tokens that are case variants of the AFM grammar's keywords and function names
    'afmkw': ['Max', 'Min', 'Sum', 'To', 'Not', 'And', 'Or', 'Iff', 'Implies', 'Requires', 'Excludes', 'Abs', 'Cos', 'Sin', 'Mod',
              'Pow', 'In', 'Real'],
    # AFM WORD tokens equal up to letter case
    'afmcase': ['Abc', 'ABC', 'AbC', 'ABc', 'Xyz', 'XYZ', 'XyZ', 'XYz', 'Pq', 'PQ', 'Mno', 'MNO', 'MnO', 'MNo'],
    'afmword': ['Alpha', 'Beta2', 'Gamma', 'DeltaX', 'Eps', 'Zeta9', 'Eta', 'Theta1', 'Iota',
                'Kappa', 'Lambda', 'Mu3', 'Nu', 'Xi'],
    'attrlow': ['price', 'cost', 'w', 'mem', 'speed', 'size', 'level', 'rank', 'qty', 'kind',
                'mode', 'tag', 'unit', 'load'],
    'quote': ['a"b', '"q"', 'x"', '"y'],
    'dot': ['a.b', 'v1.2', 'x.y.z', '.d'],
    # never starting with an apostrophe: the library's AST reads such a leaf as a string literal
    'apos': ["it's", "q'q'", "o'k", "x'", "d'", "a'b'c"],
}


# constraint names: in every naming but the base one, creation order is NOT lexicographic order
CTC_POOL = ['zz last', 'mm mid', 'Zeta', 'aa first', 'c10', 'c2', 'Alpha', 'b', 'a', 'Constraint 10', 'Constraint 2', '0']


def ascii_escape(s):
    return json.dumps(s, ensure_ascii=True)[1:-1]


class Naming:
    """Bijection between abstract names and concrete strings."""

    def __init__(self, classes=('plain',), k=0, seed=0, attr_classes=('attrlow',)):
        self.classes = tuple(classes)
        self.attr_classes = tuple(attr_classes)
        self.k = k
        self.seed = seed
        self.fwd = {}
        self.rev = {}
        self._used = set()
        self._rnd = random.Random(seed * 7919 + k)
        self._offs = {c: self._rnd.randrange(len(POOLS[c])) for c in POOLS}

    def describe(self):
        return {'classes': list(self.classes), 'attr_classes': list(self.attr_classes), 'k': self.k, 'seed': self.seed,
                'map': {a: ascii_escape(c) for a, c in sorted(self.fwd.items())}}

    def _pick(self, classes, idx):
        cls = classes[(idx + self.k) % len(classes)]
        pool = POOLS[cls]
        for j in range(len(pool)):
            cand = pool[(self._offs[cls] + idx + j) % len(pool)]
            if cand not in self._used and (cls in ('casepair', 'afmcase') or cand.lower() not in {u.lower() for u in self._used}):
                return cand
        n = 0
        while True:  # pool exhausted: derive a fresh one, inside the character set of the class (no blank unless the class has blanks)
            base = pool[idx % len(pool)]
            if cls in ('afmword', 'afmcase', 'afmkw'):
                cand = base + 'X%d' % n
            elif cls in ('plain', 'under0'):
                cand = base + '_%d' % n
            elif cls in ('casepair', 'natural', 'numeric', 'digit0', 'substr', 'uvlkw', 'opword', 'nonascii', 'nonnfc'):
                cand = base + '%d' % n
            else:
                cand = base + ' %d' % n
            if cand not in self._used:
                return cand
            n += 1

    def conc(self, a):
        """abstract -> concrete (allocating on first use)."""
        if a in self.fwd:
            return self.fwd[a]
        if '.' in a and not a.startswith('?'):  # composite reference f1.a1
            c = '.'.join(self.conc(p) for p in a.split('.'))
            self.fwd[a] = c
            self.rev[c] = a
            return c
        if a[:1] == 'f' and a[1:].isdigit():
            c = self._pick(self.classes, int(a[1:]) - 1)
        elif a[:1] == 'a' and a[1:].isdigit():
            c = self._pick(self.attr_classes, int(a[1:]) - 1)
        else:
            c = a  # constraint names and anything else: literal
        self._used.add(c)
        self.fwd[a] = c
        self.rev[c] = a
        return c

    def conc_ctc(self, a):
        """abstract constraint name (c1, c2, i1, ...) -> concrete; literal under the base naming"""
        if self.k == 0 or not (a[:1] in 'ci' and a[1:].isdigit()):
            return a
        key = 'ctc:' + a
        if key not in self.fwd:
            c = CTC_POOL[(int(a[1:]) - 1 + (6 if a[0] == 'i' else 0)) % len(CTC_POOL)]
            self.fwd[key] = c
            self.rev['ctc:' + c] = a
        return self.fwd[key]

    def abs_ctc(self, c):
        """concrete constraint name -> abstract (names the library derives itself stay as they are)"""
        return self.rev.get('ctc:' + c, ascii_escape(c)) if isinstance(c, str) else '?n:<%s>' % type(c).__name__

    def abs(self, c):
        """concrete -> abstract; unknown strings become '?n:' tokens."""
        if not isinstance(c, str):
            return '?n:<' + type(c).__name__ + '>'
        if c in self.rev:
            return self.rev[c]
        return '?n:' + ascii_escape(c)


def plain_naming():
    return Naming(('plain',), 0, 0)


def identity_naming():
    """abstract names are used as concrete names (f1 -> 'f1')."""
    n = Naming(('plain',), 0, 0)
    n.conc = lambda a: (n.fwd.setdefault(a, a), n.rev.setdefault(a, a))[0]
    return n
