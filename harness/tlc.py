"""Running TLC: case generators (FM.tla) and trace validation (FMTrace.tla)."""
import json
import os
import re
import shutil
import subprocess
import time

SPEC_DIR = os.path.join(os.path.dirname(os.path.dirname(os.path.abspath(__file__))), 'spec')
JAR = '/opt/veriftools/tla/tla2tools.jar:/opt/veriftools/tla/CommunityModules-deps.jar'


class TLCError(Exception):
    """Machinery failure (exit 2), never a verdict."""


def _java(heap, extra_props=()):
    return ['java', '-XX:+UseParallelGC', '-Xmx' + heap, '-Xss16m',
            '-DTLA-Library=' + SPEC_DIR] + list(extra_props) + ['-cp', JAR, 'tlc2.TLC']


def tla_value(v):
    """Python value -> TLA+ expression text."""
    if isinstance(v, bool):
        return 'TRUE' if v else 'FALSE'
    if isinstance(v, int):
        return str(v) if v >= 0 else '(%d)' % v
    if isinstance(v, str):
        return json.dumps(v)
    if isinstance(v, (set, frozenset)):
        return '{' + ', '.join(sorted(tla_value(x) for x in v)) + '}'
    if isinstance(v, list) and v and all(isinstance(x, dict) for x in v):   # a SET of records
        return '{' + ', '.join(tla_value(x) for x in v) + '}'
    if isinstance(v, (list, tuple)):
        return '<<' + ', '.join(tla_value(x) for x in v) + '>>'
    if isinstance(v, StrFun):    # function with a string domain:  ("a" :> 1 @@ "b" :> 2)
        return '(' + ' @@ '.join('%s :> %s' % (json.dumps(k), tla_value(x)) for k, x in sorted(v.d.items())) + ')'
    if isinstance(v, dict):
        return '[' + ', '.join('%s |-> %s' % (k, tla_value(x)) for k, x in sorted(v.items())) + ']'
    if isinstance(v, Raw):
        return v.text
    raise TypeError(type(v))


class StrFun:
    def __init__(self, d):
        self.d = d


class Raw:
    def __init__(self, text):
        self.text = text


GEN_DEFAULTS = {
    'N': 4, 'MaxKids': 4, 'MinHi': 0, 'AllowStar': False, 'OverHi': False, 'Axes': set(), 'Types': set(),
    'FCards': set(), 'AttrNames': [], 'AttrVals': set(), 'MaxCtc': 0, 'CtcDepth': 0,
    'CtcBinOps': set(), 'CtcChains': set(), 'CtcArith': False, 'CtcEqShape': False, 'CtcMinFeatures': 1, 'CtcGrow': 0, 'CtcSameName': False, 'Fmt': '', 'Fmt2': '', 'MaxEdits': 0, 'EditKinds': set(), 'MaxLevel': 40, 'Walks': 0, 'Seed': 0, 'Shape': '',
}
GEN_INVARIANTS = ['InvWellFormed', 'L1_KindPartition', 'L2_Preorder']
GEN_PROPERTIES = ['BuildMonotone', 'HistGrows', 'BaseKept']     # action properties, checked in the FM generator runs
SEM_INVARIANTS = ['L3_Count', 'L4_Core', 'L5_Atomic']


def parse_stats(out):
    m = re.search(r'(\d+) states generated, (\d+) distinct states found', out)
    if not m:
        # simulation mode prints a different summary
        m2 = re.search(r'The number of states generated: (\d+)', out)
        if m2:
            return int(m2.group(1)), int(m2.group(1))
        return 0, 0
    return int(m.group(1)), int(m.group(2))


def parse_printed(out):
    """PrintT(ToJson(x)) lines: a quoted TLA+ string holding JSON."""
    vals = []
    for line in out.splitlines():
        line = line.strip()
        if line.startswith('"{') or line.startswith('"['):
            try:
                vals.append(json.loads(json.loads(line)))
            except ValueError as exc:
                raise TLCError('unparseable PrintT line: %s (%s)' % (line[:200], exc))
    return vals


def run_generator(workdir, consts, module='FM', defaults=True, invariants=(), emit=True, simulate=None,
                  seed=0, extra_defs='', constraint=None, workers=1, heap='6g', timeout=3600,
                  spec_name='Spec', emit_name='Emit', emit_all=True):
    """Explore the builder state machine; -> (cases, stats dict)."""
    os.makedirs(workdir, exist_ok=True)
    cs = dict(GEN_DEFAULTS) if defaults else {}
    cs.update(consts)
    lines = ['---- MODULE MC ----', 'EXTENDS ' + module]
    for k, v in cs.items():
        lines.append('c_%s == %s' % (k, tla_value(v)))
    if extra_defs:
        lines.append(extra_defs)
    lines.append('====')
    with open(os.path.join(workdir, 'MC.tla'), 'w') as f:
        f.write('\n'.join(lines) + '\n')
    cfg = ['SPECIFICATION ' + spec_name, 'CONSTANTS']
    cfg += ['  %s <- c_%s' % (k, k) for k in cs]
    cfg += ['CONSTRAINT LevelBound']
    if constraint:
        cfg += ['CONSTRAINT ' + constraint]
    for inv in invariants:
        cfg.append('INVARIANT ' + inv)
    if module == 'FM':
        for pr in GEN_PROPERTIES:
            cfg.append('PROPERTY ' + pr)
    if emit:
        cfg.append('INVARIANT ' + emit_name)
    cfg.append('CHECK_DEADLOCK FALSE')
    with open(os.path.join(workdir, 'MC.cfg'), 'w') as f:
        f.write('\n'.join(cfg) + '\n')
    cmd = _java(heap) + ['-workers', str(workers), '-metadir', os.path.join(workdir, 'states'),
                         '-noGenerateSpecTE', '-config', 'MC.cfg']
    if simulate:
        cmd += ['-simulate', 'num=%d' % simulate['num'], '-depth', str(simulate['depth'])]
    cmd += ['-seed', str(seed)]
    cmd += ['MC.tla']
    t0 = time.time()
    pr = subprocess.run(cmd, cwd=workdir, capture_output=True, text=True, timeout=timeout)
    out = pr.stdout
    wall = time.time() - t0
    shutil.rmtree(os.path.join(workdir, 'states'), ignore_errors=True)
    ok = ('Model checking completed. No error has been found.' in out) or \
         (simulate and 'Error' not in out and pr.returncode == 0)
    if not ok:
        with open(os.path.join(workdir, 'tlc_gen.out'), 'w') as f:
            f.write(out + pr.stderr)
        raise TLCError('generator run failed (invariant/lemma violated or TLC error); see %s\n%s'
                       % (os.path.join(workdir, 'tlc_gen.out'), out[-3000:]))
    gen, distinct = parse_stats(out)
    cases = parse_printed(out) if emit else []
    if simulate:
        seen, uniq = set(), []
        for c in cases:
            key = json.dumps(c, sort_keys=True)
            if key not in seen:
                seen.add(key)
                uniq.append(c)
        cases = uniq
    elif emit and not emit_all:
        seen, uniq = set(), []
        for c in cases:
            key = json.dumps(c, sort_keys=True)
            if key not in seen:
                seen.add(key)
                uniq.append(c)
        cases = uniq
    elif emit and emit_all and len(cases) != distinct:
        raise TLCError('generator printed %d cases for %d distinct states' % (len(cases), distinct))
    return cases, {'generated': gen, 'distinct': distinct, 'wall_s': round(wall, 2),
                   'consts': {k: (sorted(v) if isinstance(v, (set, frozenset)) else v)
                              for k, v in cs.items() if not isinstance(v, (Raw, StrFun))},
                   'simulate': simulate, 'invariants': list(invariants)}


def validate_shard(workdir, shard_path, heap='3g', timeout=3600):
    """Judge one shard of traces with FMTrace; -> (verdict lines, stats)."""
    os.makedirs(workdir, exist_ok=True)
    cfg = ['SPECIFICATION TSpec', 'POSTCONDITION AllConsumed', 'CHECK_DEADLOCK FALSE']
    with open(os.path.join(workdir, 'FMTrace.cfg'), 'w') as f:
        f.write('\n'.join(cfg) + '\n')
    shutil.copy(os.path.join(SPEC_DIR, 'FMTrace.tla'), os.path.join(workdir, 'FMTrace.tla'))
    env = dict(os.environ)
    env['TRACES'] = os.path.abspath(shard_path)
    cmd = _java(heap) + ['-workers', '1', '-metadir', os.path.join(workdir, 'states'),
                         '-noGenerateSpecTE', '-config', 'FMTrace.cfg', 'FMTrace.tla']
    t0 = time.time()
    pr = subprocess.run(cmd, cwd=workdir, capture_output=True, text=True, env=env, timeout=timeout)
    out = pr.stdout
    shutil.rmtree(os.path.join(workdir, 'states'), ignore_errors=True)
    wall = time.time() - t0
    if 'Model checking completed. No error has been found.' not in out or '"CONSUMED"' not in out:
        with open(os.path.join(workdir, 'tlc_trace.out'), 'w') as f:
            f.write(out + pr.stderr)
        raise TLCError('trace validation did not complete for %s; see %s\n%s'
                       % (shard_path, os.path.join(workdir, 'tlc_trace.out'), out[-3000:]))
    gen, distinct = parse_stats(out)
    fails = parse_printed(out)
    return fails, {'generated': gen, 'distinct': distinct, 'wall_s': round(wall, 2)}


def prove(workdir, module='FMKindProofs', timeout=900):
    """Check a TLAPS proof module (spec/proofs) with tlapm; -> summary line.  A failed proof is a TLCError."""
    os.makedirs(workdir, exist_ok=True)
    src = os.path.join(SPEC_DIR, 'proofs', module + '.tla')
    shutil.copy(src, os.path.join(workdir, module + '.tla'))
    if shutil.which('tlapm') is None:
        return 'tlapm not installed: proof not checked'
    try:
        pr = subprocess.run(['tlapm', '--cleanfp', module + '.tla'], cwd=workdir, capture_output=True, text=True, timeout=timeout)
    except (OSError, subprocess.TimeoutExpired) as exc:
        return 'tlapm could not be run (%s): proof not checked' % type(exc).__name__
    out = pr.stdout + pr.stderr
    m = re.search(r'All (\d+) obligations? proved', out)
    if m and pr.returncode == 0:
        return 'tlapm: all %s obligations of %s proved' % (m.group(1), module)
    if re.search(r'obligations? failed', out):       # the proof itself does not go through: the lemma is in doubt
        raise TLCError('proof %s rejected by tlapm:\n%s' % (module, out[-1500:]))
    return 'tlapm ended without a verdict (exit %d): proof not checked' % pr.returncode
