#!/bin/sh
# seedwave.sh <parallelism> <tier> <id>...   run seedtest for several seeded changes from a snapshot of the
# committed /verif (so that edits to /verif made meanwhile do not disturb the runs); meta.json is updated in /verif/seeded.
P=$1; TIER=$2; shift 2
SNAP=/tmp/verif-snap-$$
git -C /verif worktree add -q --detach $SNAP ${SNAP_REF:-HEAD} || exit 2
export SEEDED_DIR=/verif/seeded
printf '%s\n' "$@" | xargs -P $P -I{} sh -c "cd $SNAP && python3 tools/seedtest.py {} $TIER 2>&1 | tail -1"
rm -rf $SNAP/.work
git -C /verif worktree remove --force $SNAP
