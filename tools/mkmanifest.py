#!/usr/bin/env python3
"""Regenerate /verif/MANIFEST.json from the table below (kept valid at all times)."""
import json
import os

VERIF = os.path.dirname(os.path.dirname(os.path.abspath(__file__)))

COMMON_NOTE = ('Trusted: TLC/SANY/CommunityModules; the abstraction function harness/project.py and '
               'concretisation harness/names.py; CPython. Bounded: exhaustive only up to the family '
               'constants recorded in the evidence file.')

CHECKS = {
    'C03': dict(
        technique='TLA+ spec (FM.tla builder state machine) enumerated by TLC; each behaviour replayed through the '
                  'public constructors; recorded Build/Query events judged by TLC against FMClauses (trace validation)',
        text='Every reachable state of the builder state machine up to N features (all tree shapes, all cardinalities '
             '0<=lo<=hi<=k, typed features, feature cardinalities, abstract flags, one constraint from all depth-1 trees) '
             'is built through the real constructors; after every constructor call the projected object graph must equal '
             'the specification successor state, and the return value of every public query method of FeatureModel/Feature/'
             'Relation must equal the value the specification derives from the tree (Kind, TreeParent, listings as bags). '
             'Exhaustive within the bounds, so it reaches every small model, which sampled unit tests cannot.',
        design_ref='DESIGN.md section 8 (C03)'),
}

SEM_TECH = ('TLA+ spec: valid configurations defined declaratively (FMSem.tla) and evaluated by TLC over all 2^n selections; '
            'TLC-enumerated models replayed into the operation; recorded Exec events judged by TLC (trace validation)')
CHECKS.update({
    'C13': dict(technique=SEM_TECH, design_ref='DESIGN.md section 8 (C13)',
        text='All tree shapes up to N features with every relation kind (incl. mutex, [a..b], dead [0..0], several relations '
             'per parent) and all depth-1 constraints are enumerated by TLC, executed through FMEstimatedConfigurationsNumber, '
             'and the returned number is compared by TLC with Cardinality(Configs(m)) computed by brute force: equal without '
             'constraints, not smaller with. Lemma L3 (closed form = brute force) guards the oracle.'),
    'C14': dict(technique=SEM_TECH, design_ref='DESIGN.md section 8 (C14)',
        text='Same enumeration; the returned list must be duplicate-free, contain the root, be a subset of the features present in '
             'every member of Configs(m), and equal that set when there are no constraints (all by TLC brute force).'),
    'C15': dict(technique=SEM_TECH, design_ref='DESIGN.md section 8 (C15)',
        text='Same enumeration; the returned sets must partition the feature names, members of one set must be co-selected in every '
             'member of Configs(m), and every mandatory child must share a set with its parent.'),
    'C16': dict(technique='TLA+ definitions of leaves/depth/branching factor/ancestors/variation points (FMBase, FMOps) evaluated by TLC on '
                          'TLC-enumerated models; recorded Exec events judged by trace validation',
        design_ref='DESIGN.md section 8 (C16)',
        text='Every tree up to N features including the root-only model; the six operations (ancestors once per feature) must return a value '
             '(an exception is a failed .total clause) equal to the definition computed by TLC on the projected tree.'),
})

CHECKS.update({
    'C18': dict(technique='TLA+ truth-table semantics of constraint trees (FMAst.tla); TLC enumerates all trees of depth <= 2 over three names '
                          '(and random deeper ones); recorded Classify events judged by trace validation',
        design_ref='DESIGN.md section 8 (C18)',
        text='Every tree of depth <= 2 over 3 names and 8 logical operators (33k), arithmetic/aggregate shapes, and random deeper trees: '
             'all eleven constraint predicates, the extracted (l, r) pair, split_constraint and get_features are called; TLC decides '
             'soundness of requires/excludes by complete truth tables, the documented forms, mutual consistency of the kind reports, '
             'equivalence of the conjunction of the split parts, purity and totality. The known dependency defect in '
             'flamapy.core simplify_formula is modelled as a named deviation (FMAst!DepSimplify) and only results it explains exactly '
             'are attributed to it.'),
})

CHECKS.update({
    'C17': dict(technique='TLA+ definitions of the forty metrics and of the report contract (FMMetrics.tla) evaluated by TLC on TLC-enumerated '
                          'models; recorded Exec(metrics) events (unfiltered, filtered, repeated on one object) judged by trace validation',
        design_ref='DESIGN.md section 8 (C17)',
        text='All trees up to N features (all kinds, several relations per parent, abstract flags, one depth-1 constraint): the report must be '
             'produced, contain exactly the expected metric names once (with a filter: exactly the filtered ones), size = length, each ratio = '
             'size/size-of-base within rounding, the eight splitting identities on the implementation listings, each metric equal to its TLA+ '
             'definition, and agree with the stand-alone operations executed in the same event.'),
    'C19': dict(technique='TLA+ history generator (FMHist.tla): TLC enumerates every call sequence of length <= MaxLen over a model pool per '
                          'operation kind, and the GenAttr parameter space; replayed on real operation objects; trace validation with a memo '
                          'of (operation, argument, model) -> result over the whole history',
        design_ref='DESIGN.md section 8 (C19)',
        text='For each of the ten analysis operations every sequence of up to MaxLen executions over a six-model pool on ONE object, interleaved '
             'with another object, after a fresh-object baseline: the model projection must be unchanged by every call and equal '
             '(operation, argument, model) must give equal results over the history. Random attribute generation: every domain shape x '
             'leaves-only x seed x pool model; TLC checks exactly-one-added, value in domain (integer for integer bounds), untouched rest, '
             'and FlamaException for an unset domain.'),
})

CHECKS.update({
    'C20': dict(technique='TLA+ equality contract SpecEq and single-point edits (FMEq.tla); TLC generator FMEqGen enumerates every model with '
                          'each order-permutation strategy and every edit (lemma L11 model-checked); pairs rebuilt independently through the '
                          'constructors; recorded Compare events judged by trace validation',
        design_ref='DESIGN.md section 8 (C20)',
        text='For every model up to N features: an independently rebuilt copy with children / relations / constraints reversed or rotated must '
             'compare equal, and every single-point edit (rename, cardinality change, child split out, relation re-owned, operator or operand '
             'change) unequal; ==, swapped ==, !=, x==x and hash agreement are logged for the models and for every pair of features, relations '
             'and constraints and judged by TLC against SpecEq / RelEq / tree identity. Several namings, because sorting by name is where order '
             'dependence hides.'),
})

RT_TECH = ('TLA+ spec of the format fragment and of what a cycle must keep (FMFormats.tla: InFrag, PreserveClauses, cycle rule); TLC enumerates '
                  'every model of the fragment up to the family bounds; Write/Read histories replayed through the real writer and reader; '
                  'recorded events judged by trace validation')
CHECKS.update({
    'C01': dict(technique=RT_TECH, design_ref='DESIGN.md section 8 (C01)',
        text='Every model of the UVL fragment up to the bounds: all relation kinds incl. [a..b] and [a..*], typed features, feature cardinalities, '
             'abstract flags, attribute values None/bool/int/float/str/list/nested map, logical constraints (depth 1 over the model, depth 2 over two '
             'names), comparison/arithmetic/aggregate constraints; plain naming plus one naming per admissible character class (spaces, punctuation, '
             'UVL keywords, operator words, leading digit, leading underscore, non-ASCII): k write/read cycles judged by TLC with the same clauses as '
             'the other formats (what is kept; exact fixpoint from the second cycle on; byte-identical text).'),
    'C05': dict(technique=RT_TECH, design_ref='DESIGN.md section 8 (C01, C05-C08)',
        text='Every model of the JSON fragment up to the bounds (all tree shapes and relation kinds the format expresses, constraints of depth 1 over '
             'the model and every tree of depth 2 over two names, decorations) under the plain naming and one naming per admissible character class: '
             'k write/read cycles; TLC checks after the first read that names, parents, groups (members and cardinalities), flags, attributes are '
             'kept and constraints are one-to-one logically equivalent (truth tables), that the second and later read-backs equal the first exactly and '
             'the text stops changing, plus well-formedness of everything read. Parsing the already-loaded JSON object must give the same model as reading the file. All n >= 1 cycles follow by induction from these two facts.'),
    'C06': dict(technique=RT_TECH, design_ref='DESIGN.md section 8 (C01, C05-C08)',
        text='Every model of the AFM fragment up to the bounds (all tree shapes and relation kinds the format expresses, constraints of depth 1 over '
             'the model and every tree of depth 2 over two names, decorations) under the plain naming and one naming per admissible character class: '
             'k write/read cycles; TLC checks after the first read that names, parents, groups (members and cardinalities), flags, attributes are '
             'kept and constraints are one-to-one logically equivalent (truth tables), that the second and later read-backs equal the first exactly and '
             'the text stops changing, plus well-formedness of everything read. Attributes with integer-range and enumerated domains, default and null values are compared as typed tokens. All n >= 1 cycles follow by induction from these two facts.'),
    'C07': dict(technique=RT_TECH, design_ref='DESIGN.md section 8 (C01, C05-C08)',
        text='Every model of the FeatureIDE fragment up to the bounds (all tree shapes and relation kinds the format expresses, constraints of depth 1 over '
             'the model and every tree of depth 2 over two names, decorations) under the plain naming and one naming per admissible character class: '
             'k write/read cycles; TLC checks after the first read that names, parents, groups (members and cardinalities), flags, attributes are '
             'kept and constraints are one-to-one logically equivalent (truth tables), that the second and later read-backs equal the first exactly and '
             'the text stops changing, plus well-formedness of everything read. Models without constraints and single-literal constraints are included. All n >= 1 cycles follow by induction from these two facts.'),
    'C08': dict(technique=RT_TECH, design_ref='DESIGN.md section 8 (C01, C05-C08)',
        text='Every model of the Glencoe fragment up to the bounds (all tree shapes and relation kinds the format expresses, constraints of depth 1 over '
             'the model and every tree of depth 2 over two names, decorations) under the plain naming and one naming per admissible character class: '
             'k write/read cycles; TLC checks after the first read that names, parents, groups (members and cardinalities), flags, attributes are '
             'kept and constraints are one-to-one logically equivalent (truth tables), that the second and later read-backs equal the first exactly and '
             'the text stops changing, plus well-formedness of everything read. Constraint names must be kept. All n >= 1 cycles follow by induction from these two facts.'),
})

CHECKS.update({
    'C10': dict(technique='TLA+ denotational semantics of SXFM and of the .exp formula language (FMExports.tla: SplotConfigs, PLConfigs) and of the model '
                          '(FMSem.tla: Configs), compared by TLC over all 2^n selections; exports of TLC-enumerated models parsed by strict syntax-only '
                          'parsers; recorded Export events judged by trace validation',
        design_ref='DESIGN.md section 8 (C10)',
        text='Every Boolean model up to N features with every relation kind (several per parent) and every depth-1 constraint over the eight logical '
             'operators is exported with SPLOTWriter and PLWriter; the text must parse as the target syntax (an unknown token such as an enum repr or an '
             'untranslated XOR fails .parses), name exactly the model features, and denote exactly Configs(m). The dependency defect in CNF '
             'conversion of XOR/EQUIVALENCE is a named deviation (FMExports!DepModel).'),
    'C11': dict(technique='TLA+ semantics of the emitted Clafer subset (FMExports.tla: ClaferConfigs, group and cardinality rules) compared by TLC with '
                          'Configs(m) over all 2^n selections; strict parser of the subset; trace validation of Export events',
        design_ref='DESIGN.md section 8 (C11)',
        text='Every model of the Clafer fragment up to N features, depth-1 constraints over the eight operators, attributes of bool/int/float/str '
             'values, under plain / space / punctuation / operator-word namings (attribute names too): the export must parse, instantiate the root, '
             'have exactly the model features and configurations, declare every attribute it uses under the same spelling, and use only declared '
             'features in constraints.'),
    'C12': dict(technique='TLA+ history specification of Serialize: model unchanged, returned text = file bytes, one digest per (writer, model) over the whole '
                          'history (FMClauses!WriteClauses memo); histories = repeated in-process calls plus fresh interpreter processes over a sampled '
                          'environment matrix, concatenated in environment order; trace validation',
        design_ref='DESIGN.md section 8 (C12)',
        text='For every model of the C12 families and all eight writers: three in-process repetitions and one fresh interpreter per environment '
             '(PYTHONHASHSEED x LC_ALL x PYTHONUTF8); TLC checks the projected model is unchanged by every call, returned value = file content, file is '
             'UTF-8, all digests of one (writer, model) agree across the history, and non-ASCII names map back after reading. TLC\'s part is equality '
             'bookkeeping over the history; the environment matrix is sampled.',
        note=COMMON_NOTE + ' The environment matrix is a sampled harness parameter.'),
})

CHECKS.update({
    'C04': dict(technique='TLA+ generator of surface-choice vectors (FMSurface.tla) x reference models chosen from TLC-enumerated UVL models; an independent '
                          'reference emitter renders each (model, choices) pair; recorded ReadRef events judged by trace validation against the reference model',
        design_ref='DESIGN.md section 8 (C04)',
        text='Twelve reference models covering every construct of the statement (greedy cover over TLC-generated models: types, feature and group '
             'cardinalities incl. [n] and [n..*], abstract, every attribute value kind, every logical/comparison/arithmetic/aggregate operator) x all '
             '2*2*2*2*5 combinations of quoting / redundant parentheses / merged groups / comments / headers, under several namings: the reader must '
             'return exactly the reference model (tree, attributes, constraint trees). Five kinds of invalid documents (unbalanced bracket, dangling '
             'operator, missing section keyword, broken indentation, illegal character) must raise.',
        note=COMMON_NOTE + ' The reference emitter harness/emit_ref.py is trusted (written from the grammar, no code shared with uvl_writer).'),
})

CHECKS.update({
    'C09': dict(technique='TLA+ surface-choice generator (FMSurface.tla) x reference models from TLC-enumerated / seeded-random-walk models; four independent '
                          'reference emitters; ReadRef events judged by trace validation against the reference model (PreserveClauses); corpus files read '
                          'and judged against the generator statistics, TLC recounting every file below the size bound',
        design_ref='DESIGN.md section 8 (C09)',
        text='FeatureIDE XML, FaMa XML, AFM and Glencoe documents emitted by independent emitters from ten reference models per format (greedy tag cover) '
             'under all combinations of each format\'s syntactic freedoms (attribute order, mandatory="false"/abstract="false" written out, n-ary conj/disj, '
             'graphics/description elements, whitespace, missing <constraints>, ids different from names, key order, extra keys): names, parents, groups, '
             'flags must be as written and constraints equivalent to the n-ary meaning; a construct the library cannot represent (unknown rule, duplicate '
             'feature name, relational AFM constraint, unknown Glencoe group type) must raise. Plus the shipped FaMa/Betty corpus: the twelve numbers of each '
             '.statistics file must equal the numbers counted on the model read (TLC recounts them with its own operator on files <= the bound).',
        note=COMMON_NOTE + ' The reference emitters and the .statistics parser are trusted; the Glencoe emitter is limited to syntactic freedom.'),
    'C02': dict(technique='TLA+ well-formedness invariant (FMBase!WellFormedTree, FMAst!WellShaped) evaluated by TLC on the projection of every model returned by '
                          'any of the six readers over three kinds of source: library-written documents of TLC-enumerated models, reference-emitter documents, '
                          'shipped corpus files (trace validation)',
        design_ref='DESIGN.md section 8 (C02)',
        text='Every Read/ReadRef/ReadCorpus event of all six readers: one parentless root that is model.root, unique names, every other feature in exactly one '
             'relation owned by its recorded parent, relations non-empty and pointing back to their owner, attributes pointing back to their feature, '
             'every constraint tree well-shaped (unary operand on the left, binary operands both present) and get_features() returning exactly the names in it. '
             'The projection walks the object graph itself (not get_features/get_relations), so a misplaced operand or stale parent pointer is visible.'),
})

EDIT_ADD = (' Edit histories (FM.tla stage 6): the built model is observed, then edited IN PLACE through public attributes '
            '(cardinality, add / remove / replace a child, abstract flag, attribute value, remove a constraint, root operator of a '
            'constraint, rename) and observed again by the same objects and by fresh ones - exhaustively for every single edit of '
            'every small model, and along seeded walks with up to three edits of larger ones; the specification gives the '
            'successor state of every edit.')
CHAIN_ADD = (' Cross-format chains (x-<a>-<b>-*): models inside both fragments are written and read with another format first, so '
             'that the model THAT reader built is the source of this format\'s cycles.')
ADDENDA = {p: EDIT_ADD for p in ('C03', 'C10', 'C11', 'C12', 'C13', 'C14', 'C15', 'C16', 'C17', 'C19', 'C20')}
ADDENDA.update({p: EDIT_ADD + CHAIN_ADD for p in ('C01', 'C05', 'C06', 'C07', 'C08')})
ADDENDA['C13'] += (' Counts beyond 2^31: for roots owning relations over 33-128 leaf children the estimate is logged as decimal digits and '
                   'compared with FMBig!WideCount, exact arithmetic on digit sequences specified in TLA+ (lemma LBig).')
ADDENDA['C03'] += (' Lemma L1 (the six relation predicates, as the library writes them, partition every (children, min, max) and select '
                   'FMBase!Kind) is proved for all integers with the TLA+ proof system (spec/proofs/FMKindProofs.tla), checked by tlapm in this run.')

REASON_TODO = 'check not built yet (build in progress; see DESIGN.md section 12)'


def main():
    props = [json.loads(l)['id'] for l in open(os.path.join(VERIF, 'properties.jsonl'))]
    checks = []
    for pid in props:
        if pid not in CHECKS:
            continue
        c = CHECKS[pid]
        checks.append({
            'property_id': pid,
            'quick_cmd': './check %s --tier quick' % pid,
            'thorough_cmd': './check %s --tier thorough' % pid,
            'evidence_file': 'evidence/%s.json' % pid,
            'replay_cmd_template': './check --replay {path}',
            'engine': 'tla-trace',
            'level_claimed': {'category': 'model_checking', 'text': c['text'] + ADDENDA.get(pid, ''), 'design_ref': c['design_ref']},
            'level_note': c.get('note', COMMON_NOTE),
            'technique': c['technique'],
        })
    man = {
        'version': 1,
        'setup_cmd': './setup.sh',
        'hooks': {
            'guard': 'FLAMAPY_FM_VERIF',
            'enable': "no hooks exist; checks import /repo's working tree directly (sys.path / editable install in /venv)",
            'baseline_off_cmd': 'cd /repo && /venv/bin/python -m pytest -ra -q -p no:cacheprovider --timeout=900 '
                                '--continue-on-collection-errors',
            'source_commits': [],
            'add_only': True,
        },
        'engines': [{
            'name': 'tla-trace', 'path': 'check',
            'serves_properties': [c['property_id'] for c in checks],
            'kind_free_text': 'TLC generates cases from spec/FM.tla; harness replays them into flamapy/fm_metamodel and '
                              'records events; TLC validates the recorded traces against spec/FMTrace.tla',
        }],
        'checks': checks,
        'not_applicable': [{'property_id': p, 'reason': REASON_TODO} for p in props if p not in CHECKS],
        'notes': 'See DESIGN.md. exit 2 from a check means machinery failure, never a pass.',
    }
    with open(os.path.join(VERIF, 'MANIFEST.json'), 'w') as f:
        json.dump(man, f, indent=1)
    print('MANIFEST.json: %d checks, %d not_applicable' % (len(checks), len(man['not_applicable'])))


if __name__ == '__main__':
    main()
