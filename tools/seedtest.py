#!/usr/bin/env python3
"""Confirm a seeded change and run the checks against it.
  seedtest.py <seeded-id> [tier]
1. in a scratch worktree (outside /repo and /verif): the patch applies, the pinned suite still passes,
   the demonstration fails with the patch and passes without it;
2. the patch is applied to /repo, ./check <property> is run, and the patch is undone straight afterwards.
Results are recorded in seeded/<id>/meta.json."""
import json
import os
import re
import shutil
import subprocess
import sys

VERIF = os.path.dirname(os.path.dirname(os.path.abspath(__file__)))


def sh(cmd, cwd=None, timeout=3000):
    p = subprocess.run(cmd, shell=True, cwd=cwd, capture_output=True, text=True, timeout=timeout)
    return p.returncode, p.stdout + p.stderr


def main():
    sid = sys.argv[1]
    tier = sys.argv[2] if len(sys.argv) > 2 else 'quick'
    d = os.path.join(VERIF, 'seeded', sid)
    meta = json.load(open(os.path.join(d, 'meta.json')))
    prop = meta['property']
    patch = os.path.join(d, 'patch.diff')
    wt = '/tmp/seedwt-%d' % os.getpid()
    res = {}
    try:
        rc, out = sh('git -C /repo worktree add -q --detach %s HEAD' % wt)
        assert rc == 0, out
        rc, out = sh('git apply %s' % patch, cwd=wt)
        res['applies'] = rc == 0
        rc, out = sh('/venv/bin/python -m pytest -q -p no:cacheprovider tests', cwd=wt)
        m = re.search(r'(\d+) passed', out)
        res['suite_with_patch'] = out.strip().splitlines()[-1] if out.strip() else ''
        res['suite_ok'] = bool(m and int(m.group(1)) == 144 and 'failed' not in out.splitlines()[-1])
        os.makedirs(os.path.join(wt, 'seeddemo'))
        shutil.copy(os.path.join(d, 'demo_test.py'), os.path.join(wt, 'seeddemo', 'demo_test.py'))
        rc, out = sh('/venv/bin/python -m pytest -q -p no:cacheprovider seeddemo/demo_test.py', cwd=wt)
        res['demo_fails_with_patch'] = rc != 0
        sh('git checkout -- flamapy', cwd=wt)
        rc, out = sh('/venv/bin/python -m pytest -q -p no:cacheprovider seeddemo/demo_test.py', cwd=wt)
        res['demo_passes_without_patch'] = rc == 0
    finally:
        sh('git -C /repo worktree remove --force %s' % wt)
    # against the checks
    rc, out = sh('git -C /repo status --porcelain')
    assert out.strip() == '', '/repo is not clean: ' + out
    try:
        rc, out = sh('git -C /repo apply %s' % patch)
        assert rc == 0, out
        rc, out = sh('./check %s --tier %s' % (prop, tier), cwd=VERIF)
        clauses = sorted(set(c for l in out.splitlines() if l.startswith('VIOLATION') for c in
                             re.search(r'clauses=(\S+)', l).group(1).split(',')))
        res['check'] = {'tier': tier, 'cmd': './check %s --tier %s' % (prop, tier), 'exit': rc, 'detected': rc == 1,
                        'clauses': clauses[:12]}
    finally:
        sh('git -C /repo checkout -- .')
    shutil.rmtree(os.path.join(VERIF, 'replays', prop), ignore_errors=True)
    meta['confirmed'] = {k: v for k, v in res.items() if k != 'check'}
    meta.setdefault('checks', {})[tier] = res['check']
    json.dump(meta, open(os.path.join(d, 'meta.json'), 'w'), indent=1)
    print(sid, prop, 'confirmed' if all(res[k] for k in ('applies', 'suite_ok', 'demo_fails_with_patch', 'demo_passes_without_patch')) else 'NOT CONFIRMED %r' % res,
          '| check exit', res['check']['exit'], res['check']['clauses'][:5])


if __name__ == '__main__':
    main()
