#!/usr/bin/env python3
"""Confirm a seeded change and run the checks against it.
  seedtest.py <seeded-id> [tier] [--inplace]
1. in a scratch worktree (outside /repo and /verif): the patch applies, the pinned suite still passes,
   the demonstration fails with the patch and passes without it;
2. the check of the property is run against the patched tree: by default against the scratch worktree
   (VERIF_REPO=<worktree>, so several seeded changes can be tried at once and /repo is never touched);
   with --inplace the patch is applied to /repo itself and undone straight afterwards.
Evidence and replay files of these runs go to a scratch directory (VERIF_OUT), never to /verif/evidence.
Results are recorded in seeded/<id>/meta.json."""
import json
import os
import re
import shutil
import subprocess
import sys

VERIF = os.path.dirname(os.path.dirname(os.path.abspath(__file__)))


def sh(cmd, cwd=None, timeout=6000, env=None):
    p = subprocess.run(cmd, shell=True, cwd=cwd, capture_output=True, text=True, timeout=timeout, env=env)
    return p.returncode, p.stdout + p.stderr


def main():
    args = [a for a in sys.argv[1:] if not a.startswith('--')]
    inplace = '--inplace' in sys.argv
    sid = args[0]
    tier = args[1] if len(args) > 1 else 'quick'
    d = os.path.join(os.environ.get('SEEDED_DIR', os.path.join(VERIF, 'seeded')), sid)
    meta = json.load(open(os.path.join(d, 'meta.json')))
    prop = meta['property']
    patch = os.path.join(d, 'patch.diff')
    wt = '/tmp/seedwt-%d' % os.getpid()
    out_dir = '/tmp/seedout-%d' % os.getpid()
    res = {}
    try:
        rc, out = sh('git -C /repo worktree add -q --detach %s HEAD' % wt)
        assert rc == 0, out
        rc, out = sh('git apply %s' % patch, cwd=wt)
        res['applies'] = rc == 0
        rc, out = sh('/venv/bin/python -m pytest -q -p no:cacheprovider tests', cwd=wt)
        m = re.search(r'(\d+) passed', out)
        res['suite_with_patch'] = out.strip().splitlines()[-1] if out.strip() else ''
        res['suite_ok'] = bool(m and int(m.group(1)) == 144 and 'failed' not in out.splitlines()[-1])
        os.makedirs(os.path.join(wt, 'seeddemo'))
        shutil.copy(os.path.join(d, 'demo_test.py'), os.path.join(wt, 'seeddemo', 'demo_test.py'))
        rc, out = sh('/venv/bin/python -m pytest -q -p no:cacheprovider seeddemo/demo_test.py', cwd=wt)
        res['demo_fails_with_patch'] = rc != 0
        sh('git checkout -- flamapy', cwd=wt)
        rc, out = sh('/venv/bin/python -m pytest -q -p no:cacheprovider seeddemo/demo_test.py', cwd=wt)
        res['demo_passes_without_patch'] = rc == 0
        shutil.rmtree(os.path.join(wt, 'seeddemo'))
        env = dict(os.environ, VERIF_OUT=out_dir)
        if inplace:
            rc, out = sh('git -C /repo status --porcelain')
            assert out.strip() == '', '/repo is not clean: ' + out
            try:
                rc, out = sh('git -C /repo apply %s' % patch)
                assert rc == 0, out
                rc, out = sh('./check %s --tier %s' % (prop, tier), cwd=VERIF, env=env)
            finally:
                sh('git -C /repo checkout -- .')
        else:
            rc, out = sh('git apply %s' % patch, cwd=wt)
            assert rc == 0, out
            env['VERIF_REPO'] = wt
            rc, out = sh('./check %s --tier %s' % (prop, tier), cwd=VERIF, env=env)
        clauses = sorted(set(c for l in out.splitlines() if l.startswith('VIOLATION') and 'clauses=' in l for c in
                             re.search(r'clauses=(\S+)', l).group(1).split(',')))
        res['check'] = {'tier': tier, 'cmd': './check %s --tier %s' % (prop, tier), 'exit': rc, 'detected': rc == 1,
                        'clauses': clauses[:12], 'against': '/repo (patched in place)' if inplace else 'scratch worktree (VERIF_REPO)'}
        if rc not in (0, 1):
            res['check']['tail'] = out[-1500:]
    finally:
        sh('git -C /repo worktree remove --force %s' % wt)
        shutil.rmtree(out_dir, ignore_errors=True)
    meta['confirmed'] = {k: v for k, v in res.items() if k != 'check'}
    meta.setdefault('checks', {})[tier] = res['check']
    json.dump(meta, open(os.path.join(d, 'meta.json'), 'w'), indent=1)
    print(sid, prop, 'confirmed' if all(res[k] for k in ('applies', 'suite_ok', 'demo_fails_with_patch', 'demo_passes_without_patch')) else 'NOT CONFIRMED %r' % res,
          '| check exit', res['check']['exit'], res['check']['clauses'][:5])


if __name__ == '__main__':
    main()
