#!/usr/bin/env python3
"""Import sub-agent deliverables  <out>/<Cxx>/<n>/{patch.diff,demo_test.py,meta.json}  as seeded/<Cxx>-<letter>/.
  wave_import.py /tmp/w4/out d e      (change 1 -> suffix d, change 2 -> suffix e)"""
import json
import os
import shutil
import sys

VERIF = os.path.dirname(os.path.dirname(os.path.abspath(__file__)))
out, letters = sys.argv[1], sys.argv[2:]
for pid in sorted(os.listdir(out)):
    for n, letter in enumerate(letters, 1):
        src = os.path.join(out, pid, str(n))
        need = [os.path.join(src, f) for f in ('patch.diff', 'demo_test.py', 'meta.json')]
        if not all(os.path.exists(f) and os.path.getsize(f) > 0 for f in need):
            continue
        dst = os.path.join(VERIF, 'seeded', '%s-%s' % (pid, letter))
        if os.path.exists(dst):
            continue
        os.makedirs(dst)
        for f in need[:2]:
            shutil.copy(f, dst)
        meta = json.load(open(need[2]))
        meta['property'] = pid
        meta['wave'] = int(os.environ.get('WAVE', '4'))
        json.dump(meta, open(os.path.join(dst, 'meta.json'), 'w'), indent=1)
        print('imported', dst)
