#!/usr/bin/env python3
"""Summarise replay files of a property: failing clauses with example cases."""
import collections, glob, json, sys
def show(t):
    if not isinstance(t, dict) or t.get('op') in (None, 'NIL'): return ''
    if t['op'] in ('VAR', 'INT', 'NUM', 'STR'): return t['v']
    if t['r']['op'] == 'NIL': return '%s(%s)' % (t['op'], show(t['l']))
    return '(%s %s %s)' % (show(t['l']), t['op'], show(t['r']))
def rels(m): return ['%s->%s[%d,%d]' % (r['owner'], ','.join(r['kids']), r['lo'], r['hi']) for r in m.get('rels', [])]
pid = sys.argv[1]
c = collections.Counter(); ex = collections.defaultdict(list)
for f in sorted(glob.glob('/verif/replays/%s/*.json' % pid)):
    d = json.load(open(f))
    for fl in d['failing']:
        ev = d['trace']['ev'][fl['step'] - 1]
        c[fl['clause']] += 1
        ret = ev.get('ret', {})
        info = {'file': f.split('/')[-1], 'a': ev['a'], 'args': {k: v for k, v in ev.get('args', {}).items() if k not in ('model', 'ast')},
                'out': ev.get('out'), 'rels': rels(d['meta']['model']), 'ctcs': [show(x['ast']) for x in d['meta']['model'].get('ctcs', [])],
                'naming': d['meta']['naming']['map'] if d['meta']['naming']['classes'] != ['plain'] else 'plain'}
        if isinstance(ret, dict):
            if 'ast' in ret: info['ast'] = show(ret['ast']); info['errors'] = ret.get('errors'); info['preds'] = {k for k, v in ret.get('preds', {}).items() if v}; info['parts'] = [show(p) for p in ret.get('parts', [])][:6]; info['pair']=ret.get('pair')
            for k in ('n', 'names', 'sets', 'bad', 'errors', 'digest'):
                if k in ret and k not in info and ret[k] not in ([], 0, ''): info[k] = ret[k]
        if ev.get('anom'): info['anom'] = ev['anom']
        if len(sys.argv) > 2 and sys.argv[2] in fl['clause']: info['post'] = ev.get('post')
        ex[fl['clause']].append(info)
for k, v in sorted(c.items()):
    print('==', k, v)
    for e in ex[k][:int(sys.argv[3]) if len(sys.argv) > 3 else 3]: print('    ', e)
