#!/bin/sh
# Run every registered check at the given tier and print one summary line per property.
tier=${1:-quick}
cd "$(dirname "$0")/.."
for p in $(python3 -c "import json;print(' '.join(c['property_id'] for c in json.load(open('MANIFEST.json'))['checks']))"); do
  start=$(date +%s)
  ./check $p --tier $tier > .work-$p.out 2>&1
  rc=$?
  echo "$p rc=$rc $(( $(date +%s) - start ))s $(grep -c '^VIOLATION' .work-$p.out) violations $(grep -c '^KNOWN-FINDING' .work-$p.out) known"
  [ $rc -eq 0 ] && rm -f .work-$p.out
done
