#!/usr/bin/env python3
"""memwatch.py <cmd...>: run a command, print the peak of the summed RSS of its process tree (sampled twice a second)."""
import subprocess
import sys
import threading
import time


def tree_rss(root):
    out = subprocess.run(['ps', '-e', '-o', 'pid=,ppid=,rss='], capture_output=True, text=True).stdout
    kids, rss = {}, {}
    for line in out.splitlines():
        p, pp, r = line.split()
        kids.setdefault(int(pp), []).append(int(p))
        rss[int(p)] = int(r)
    tot, stack = 0, [root]
    while stack:
        p = stack.pop()
        tot += rss.get(p, 0)
        stack.extend(kids.get(p, []))
    return tot


p = subprocess.Popen(sys.argv[1:])
peak = [0]


def watch():
    while p.poll() is None:
        peak[0] = max(peak[0], tree_rss(p.pid))
        time.sleep(0.5)


t = threading.Thread(target=watch)
t.start()
rc = p.wait()
t.join()
print('PEAK_RSS_MB %d' % (peak[0] // 1024), file=sys.stderr)
sys.exit(rc)
