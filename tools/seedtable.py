#!/usr/bin/env python3
import glob, json, os
rows = []
for f in sorted(glob.glob(os.path.join(os.path.dirname(os.path.dirname(os.path.abspath(__file__))), 'seeded', '*', 'meta.json'))):
    m = json.load(open(f))
    sid = os.path.basename(os.path.dirname(f))
    c = m.get('confirmed', {})
    ok = all(c.get(k) for k in ('applies', 'suite_ok', 'demo_fails_with_patch', 'demo_passes_without_patch'))
    first = m.get('checks_first_run', {})
    for tier, r in sorted(m.get('checks', {}).items()):
        fr = first.get(tier)
        rows.append('| %s | %s | %s | %s | %s | %s | %s |' % (sid, m['property'], 'yes' if ok else 'NO', tier,
                    ('detected' if fr['detected'] else 'missed') if fr else 'as now',
                    'detected' if r['detected'] else 'MISSED (exit %s)' % r['exit'], ', '.join(r['clauses'][:4])))
print('| seeded id | property | confirmed | tier | first run | check now | clauses |\n|---|---|---|---|---|---|---|')
print('\n'.join(rows))
